import os
import sys

sys.path.insert(0, os.path.dirname(os.path.abspath(__file__)))
from sim.driver import main  # noqa: E402

if __name__ == "__main__":
    try:
        code = main()
    except SystemExit:
        raise
    except BaseException:
        import traceback

        traceback.print_exc()
        code = 2  # a crash of the harness is never a pass and never a violation
    sys.exit(code)
