import os
import sys

sys.path.insert(0, os.path.dirname(os.path.abspath(__file__)))
from sim.driver import main  # noqa: E402

if __name__ == "__main__":
    sys.exit(main())
