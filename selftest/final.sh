#!/bin/bash
# Final validation on the unchanged tree: seed sweep, determinism proof, thorough tier.
cd "$(dirname "$0")/.."
echo "== seeds"; /venv/bin/python selftest/seeds.py 1 24; echo "seeds exit=$?"
echo "== determinism"; /venv/bin/python selftest/determinism.py 300; echo "determinism exit=$?"
echo "== thorough"; selftest/thorough.sh
