#!/bin/bash
# Final validation on the unchanged tree and against the seeded changes.
cd "$(dirname "$0")/.."
echo "== seeds"; /venv/bin/python selftest/seeds.py 1 24; echo "seeds exit=$?"
echo "== determinism"; /venv/bin/python selftest/determinism.py 300; echo "determinism exit=$?"
echo "== mutants"; /venv/bin/python selftest/mutants.py > /tmp/final-mutants.log 2>&1; echo "mutants exit=$?"; /venv/bin/python -c "
import json
d=json.load(open('seeded/results.json'))
print(len(d), 'run;', 'not caught:', {k:v.get('exit') for k,v in d.items() if not v.get('caught')})"
echo "== thorough"; selftest/thorough.sh
