#!/bin/bash
# Confirm a seeded change: demo passes on HEAD, with the patch the repository's
# own test suite still passes and the demo fails.  Usage: confirm_seeded.sh <id>
id=$1
V=/verif/seeded/$id
WT=/tmp/cf-$id
git -C /repo worktree remove --force $WT 2>/dev/null
git -C /repo worktree add -q --detach $WT HEAD || exit 2
export PYTHONPATH=$WT/src NUMBA_CACHE_DIR=$WT/.numba PYTHONDONTWRITEBYTECODE=1
run_demo() { d=$(mktemp -d /tmp/cfd-XXXXXX); (cd $d && timeout 900 /venv/bin/python $V/demo.py > $d/out.txt 2>&1); rc=$?; tail -3 $d/out.txt | tr '\n' ' ' | cut -c1-300; rm -rf $d; return $rc; }
base_head=$(git -C $WT rev-parse --short HEAD)
o1=$(run_demo); rc1=$?
(cd $WT && git apply $V/patch.diff) || { echo "$id: patch does not apply"; git -C /repo worktree remove --force $WT; exit 2; }
tests=$(cd $WT && timeout 1800 /venv/bin/python -m pytest -q -p no:cacheprovider --timeout=900 2>&1 | grep -E "passed|failed" | tail -1)
o2=$(run_demo); rc2=$?
git -C /repo worktree remove --force $WT
rm -rf $WT
/venv/bin/python - "$id" "$base_head" "$rc1" "$tests" "$rc2" "$o2" <<'P'
import json,sys
id,head,rc1,tests,rc2,o2=sys.argv[1:7]
ok = rc1=="0" and rc2!="0" and "135 passed" in tests and "failed" not in tests
json.dump({"id":id,"repo_head":head,"demo_exit_unpatched":int(rc1),"tests_with_patch":tests,"demo_exit_patched":int(rc2),"demo_tail_patched":o2,"confirmed":ok}, open(f"/verif/seeded/{id}/confirm.json","w"), indent=1)
print(id, "CONFIRMED" if ok else "NOT-CONFIRMED", rc1, tests, rc2)
P
