#!/bin/bash
cd "$(dirname "$0")/.."
for s in 102 0; do
  t=$(date +%s); VERIF_SEED=$s ./check C12 --tier thorough --no-evidence > /tmp/c12soak-$s.log 2>&1; echo "C12 thorough seed=$s exit=$? wall=$(( $(date +%s) - t ))s"; grep -E "VIOLATION|HARNESS" /tmp/c12soak-$s.log | head -3
done
