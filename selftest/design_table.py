"""Regenerate the 'which check catches which change' table in DESIGN.md from
seeded/results.json and seeded/*/meta.json (between the TABLE markers)."""
import json
import os

V = os.path.dirname(os.path.dirname(os.path.abspath(__file__)))
res = json.load(open(os.path.join(V, "seeded", "results.json")))
rows = []
for i in sorted(os.listdir(os.path.join(V, "seeded"))):
    mp = os.path.join(V, "seeded", i, "meta.json")
    if not os.path.exists(mp):
        continue
    m = json.load(open(mp))
    r = res.get(i, {})
    cls = (r.get("classes") or [""])[0]
    cls = cls.split("):")[0].replace("(", "").replace("'", "") if cls else ""
    rows.append(f"| `{i}` | {m['breaks_property']} | {m['needs_to_manifest']} | {'**caught**' if r.get('caught') else ('not run' if not r else ('not caught (by construction, see meta.json)' if m.get('expected') == 'missed' else '**MISSED**'))} by {r.get('checked_with', m['breaks_property'])} ({r.get('tier', '-')}, {r.get('wall_s', '-')} s) | {cls} |")
table = "| seeded change | property | needs, to manifest | registered check | first violation class reported |\n|---|---|---|---|---|\n" + "\n".join(rows)
p = os.path.join(V, "DESIGN.md")
s = open(p).read()
a, b = "<!-- TABLE:BEGIN -->", "<!-- TABLE:END -->"
if a in s:
    s = s[: s.index(a) + len(a)] + "\n" + table + "\n" + s[s.index(b):]
    open(p, "w").write(s)
print(table)
