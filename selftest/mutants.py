"""Run the registered checks against every seeded change (in a scratch worktree
of /repo, never in /repo itself) and record which check catches which change.

usage: /venv/bin/python selftest/mutants.py [--tier quick] [ids...]
writes seeded/results.json
"""
import json
import os
import subprocess
import sys
import time

V = "/verif"
WT = "/tmp/wt-mut"


def sh(*a, **k):
    return subprocess.run(*a, shell=True, text=True, capture_output=True, **k)


def main():
    tier = "quick"
    ids = [a for a in sys.argv[1:] if not a.startswith("--")]
    if "--tier" in sys.argv:
        tier = sys.argv[sys.argv.index("--tier") + 1]
        ids = [i for i in ids if i != tier]
    allids = sorted(d for d in os.listdir(f"{V}/seeded") if os.path.isfile(f"{V}/seeded/{d}/patch.diff"))
    ids = ids or allids
    sh(f"git -C /repo worktree remove --force {WT}")
    r = sh(f"git -C /repo worktree add -q --detach {WT} HEAD")
    assert r.returncode == 0, r.stderr
    res_path = f"{V}/seeded/results.json"
    results = json.load(open(res_path)) if os.path.exists(res_path) else {}
    try:
        for i in ids:
            meta = json.load(open(f"{V}/seeded/{i}/meta.json"))
            prop = meta["breaks_property"]
            sh(f"git -C {WT} reset -q --hard && git -C {WT} clean -fdq")
            r = sh(f"git -C {WT} apply {V}/seeded/{i}/patch.diff")
            if r.returncode:
                results[i] = {"error": "patch does not apply: " + r.stderr[-300:]}
                continue
            t0 = time.time()
            env = dict(os.environ, BLDFM_VERIF_REPO=WT, VERIF_MAX_CLASSES="2")
            results[i] = None
            for pr in [prop] + meta.get("also_check", []):
                p = subprocess.run([f"{V}/check", pr, "--tier", tier, "--no-evidence"], text=True, capture_output=True, env=env, cwd=V)
                classes = [l.split("violation class=")[1][:200] for l in p.stdout.splitlines() if "violation class=" in l]
                r = {"property": prop, "checked_with": pr, "tier": tier, "exit": p.returncode, "caught": p.returncode == 1, "classes": classes, "wall_s": round(time.time() - t0, 1),
                     "repo_head": sh("git -C /repo rev-parse --short HEAD").stdout.strip()}
                if results[i] is None or r["caught"]:
                    prev = results[i]
                    results[i] = r
                    if prev is not None:
                        results[i]["not_caught_by"] = prev["checked_with"]
                if r["caught"]:
                    break
            print(i, results[i]["caught"], "exit", results[i]["exit"], results[i]["wall_s"], classes[:1], flush=True)
            for l in p.stdout.splitlines():
                if l.startswith("VIOLATION"):
                    f = l.split("replay=")[1].strip()
                    if os.path.exists(f):
                        os.unlink(f)
            json.dump(results, open(res_path, "w"), indent=1, sort_keys=True)
    finally:
        sh(f"git -C /repo worktree remove --force {WT}")
        sh(f"rm -rf {WT}")


if __name__ == "__main__":
    main()
