#!/bin/bash
# Take a sub-agent delivery directory (<out>/<id>/{patch.diff,demo.py,notes.txt}),
# file it under /verif/seeded/<id>/, confirm it (demo passes on HEAD, fails with
# the patch, the repository's tests still pass) and write meta.json.
# usage: integrate_round.sh <round-label> <delivery-dir>...
round=$1; shift
for d in "$@"; do
  id=$(basename "$d")
  prop=${id%%-*}
  T=/verif/seeded/$id
  mkdir -p $T
  cp "$d/patch.diff" "$d/demo.py" $T/
  [ -f "$d/notes.txt" ] && cp "$d/notes.txt" $T/README.md
  # deliveries carry their scratch path; the confirm script sets PYTHONPATH itself
  echo '{"id":"'$id'","breaks_property":"'$prop'"}' > $T/meta.json
  /verif/selftest/confirm_seeded.sh $id
  /venv/bin/python - "$id" "$prop" "$round" <<'P'
import json, sys, os
id, prop, rnd = sys.argv[1:4]
T = f"/verif/seeded/{id}"
notes = open(f"{T}/README.md").read().strip() if os.path.exists(f"{T}/README.md") else ""
conf = json.load(open(f"{T}/confirm.json"))
meta = {"id": id, "breaks_property": prop,
        "source": f"independent sub-agent ({rnd}); given only the property text, earlier mechanisms to avoid, and a scratch worktree",
        "needs_to_manifest": " ".join(notes.split())[:600],
        "confirmed_by": "selftest/confirm_seeded.sh", "confirmation": conf}
json.dump(meta, open(f"{T}/meta.json", "w"), indent=1)
P
done
