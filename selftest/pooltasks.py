import os

G = 0
COUNTER = 0


def sq(x):
    return (x, x * x)


def boom(x):
    if x == 3:
        raise ValueError("bad item 3")
    return x


def die(x):
    if x == 1:
        os._exit(7)
    return x


def count(_):
    global COUNTER
    COUNTER += 1
    return COUNTER


def see_g(_):
    return G
