"""Determinism proof for the simulators: the same seeds must give the same
run digests across harness processes, lane counts and PYTHONHASHSEED values.

usage: /venv/bin/python selftest/determinism.py [N per engine, default 300]
exit 0 iff all digests agree.
"""
import json
import os
import subprocess
import sys
import tempfile

V = os.path.dirname(os.path.dirname(os.path.abspath(__file__)))


def digests(prop, n, lanes, hashseed, seed):
    f = tempfile.NamedTemporaryFile(suffix=".json", delete=False).name
    env = dict(os.environ, VERIF_SEED=str(seed), BLDFM_VERIF_HASHSEED=str(hashseed))
    env.pop("BLDFM_VERIF_BOOT", None)
    p = subprocess.run([os.path.join(V, "check"), prop, "--runs", str(n), "--lanes", str(lanes), "--no-evidence", "--digests", f], env=env, capture_output=True, text=True)
    if p.returncode != 0:
        print(p.stdout[-2000:], p.stderr[-1000:])
        raise SystemExit(f"{prop}: check exited {p.returncode}")
    d = json.load(open(f))
    os.unlink(f)
    return d


def main():
    n = int(sys.argv[1]) if len(sys.argv) > 1 else 300
    bad = 0
    report = {}
    for prop in ("C15", "C14", "C12"):
        base = digests(prop, n, 16, 0, 7)
        ndig = sum(1 for d in base if d)
        for lanes, hs in ((4, 0), (16, 12345), (7, 999)):
            other = digests(prop, n, lanes, hs, 7)
            diff = [i for i, (a, b) in enumerate(zip(base, other)) if a != b]
            print(f"{prop}: {ndig} digests, lanes={lanes} PYTHONHASHSEED={hs}: {len(diff)} differ {diff[:5]}", flush=True)
            bad += len(diff)
            report[f"{prop}/lanes={lanes}/hashseed={hs}"] = {"digests": ndig, "differ": len(diff)}
    json.dump(report, open(os.path.join(V, "selftest", "determinism_report.json"), "w"), indent=1)
    return 1 if bad else 0


if __name__ == "__main__":
    sys.exit(main())
