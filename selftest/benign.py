"""Negative controls: benign variants of the tree (correct code written with
other idioms: NamedTemporaryFile, flock, publish by hard link, lock file with a
sleep loop) must NOT make the checks fail.  usage: benign.py [ids...]
writes benign/results.json"""
import json
import os
import subprocess
import sys
import time

V = "/verif"
WT = "/tmp/wt-benign"
EXPECT = {  # (variant, property) -> expected exit code; default 0
    ("B5-lockfile-sleep-loop", "C15"): 1,  # a lock FILE survives a kill: the next store waits forever - a true C15 violation
}


def sh(c):
    return subprocess.run(c, shell=True, text=True, capture_output=True)


ids = sys.argv[1:] or sorted(d for d in os.listdir(f"{V}/benign") if os.path.isdir(f"{V}/benign/{d}"))
sh(f"git -C /repo worktree remove --force {WT}")
assert sh(f"git -C /repo worktree add -q --detach {WT} HEAD").returncode == 0
res = json.load(open(f"{V}/benign/results.json")) if os.path.exists(f"{V}/benign/results.json") else {}
bad = 0
try:
    for i in ids:
        sh(f"git -C {WT} reset -q --hard && git -C {WT} clean -fdq")
        assert sh(f"git -C {WT} apply {V}/benign/{i}/patch.diff").returncode == 0, i
        for prop in ("C15", "C14", "C12"):
            t0 = time.time()
            p = subprocess.run([f"{V}/check", prop, "--no-evidence"], text=True, capture_output=True, env=dict(os.environ, BLDFM_VERIF_REPO=WT, VERIF_MAX_CLASSES="1"), cwd=V)
            want = EXPECT.get((i, prop), 0)
            ok = p.returncode == want
            bad += 0 if ok else 1
            cls = [l.split("violation class=")[1][:160] for l in p.stdout.splitlines() if "violation class=" in l]
            err = [l[:300] for l in p.stdout.splitlines() if "HARNESS-ERROR" in l]
            res[f"{i}/{prop}"] = {"exit": p.returncode, "expected": want, "ok": ok, "wall_s": round(time.time() - t0, 1), "classes": cls, "harness_errors": err}
            print(i, prop, "exit", p.returncode, "expected", want, "OK" if ok else "UNEXPECTED", cls[:1], err[:1], flush=True)
            for l in p.stdout.splitlines():
                if l.startswith("VIOLATION"):
                    f = l.split("replay=")[1].strip()
                    if os.path.exists(f):
                        os.unlink(f)
        json.dump(res, open(f"{V}/benign/results.json", "w"), indent=1, sort_keys=True)
finally:
    sh(f"git -C /repo worktree remove --force {WT}")
    sh(f"rm -rf {WT}")
sys.exit(1 if bad else 0)
