"""Differential self-test: the same calls under the real ProcessPoolExecutor
(fork start method, uncontrolled schedule) and under SimPool must give the same
observable results.  usage: /venv/bin/python selftest/differential_pool.py
"""
import json
import os
import subprocess
import sys

V = os.path.dirname(os.path.dirname(os.path.abspath(__file__)))
sys.path.insert(0, V)
sys.path.insert(0, os.path.join(V, "selftest"))


def scenarios(cf):
    import pooltasks as T

    out = {}
    PPE = cf.ProcessPoolExecutor
    for w in (1, 2, 5):
        with PPE(max_workers=w) as p:
            out[f"map_w{w}"] = list(p.map(T.sq, range(7)))
    with PPE(max_workers=2) as p:
        out["map_chunk3"] = list(p.map(T.sq, range(8), chunksize=3))
    try:
        with PPE(max_workers=2) as p:
            list(p.map(T.boom, range(6)))
        out["exc"] = "none"
    except Exception as e:
        out["exc"] = [type(e).__name__, str(e)]
    p = PPE(max_workers=1)
    p.shutdown()
    try:
        p.submit(T.sq, 1)
        out["after_shutdown"] = "accepted"
    except Exception as e:
        out["after_shutdown"] = type(e).__name__
    try:
        PPE(max_workers=0)
        out["zero_workers"] = "accepted"
    except Exception as e:
        out["zero_workers"] = type(e).__name__
    try:
        with PPE(max_workers=2) as p:
            fs = [p.submit(T.die, i) for i in range(3)]
            out["death"] = [type(f.exception()).__name__ if f.exception() else "ok" for f in fs][1]
    except Exception as e:
        out["death"] = "raised " + type(e).__name__
    with PPE(max_workers=1) as p:
        out["worker_state"] = list(p.map(T.count, range(4)))
    T.G = 1
    with PPE(max_workers=3) as p:
        f1 = p.submit(T.see_g, 0)
        r1 = f1.result()
        T.G = 2
        rest = [p.submit(T.see_g, 0).result() for _ in range(4)]
        out["fork_at_first_submit"] = [r1] + rest
    with PPE(max_workers=3) as p:
        fs = [p.submit(T.sq, i) for i in range(5)]
        out["as_completed_set"] = sorted(f.result() for f in cf.as_completed(fs))
        d, nd = cf.wait(fs)
        out["wait"] = [len(d), len(nd)]
    try:
        with PPE(max_workers=1) as p:
            p.submit(lambda: 1).result()
        out["unpicklable"] = "ok"
    except Exception as e:
        out["unpicklable"] = "error"
    # the real drivers
    import logging

    logging.disable(logging.CRITICAL)
    import numpy as np
    from bldfm.config_parser import parse_config_dict
    import bldfm.interface as bi

    cfg = parse_config_dict({"domain": {"nx": 12, "ny": 8, "xmax": 100.0, "ymax": 80.0, "nz": 4, "modes": [4, 4], "halo": 30.0, "ref_lat": 50.0, "ref_lon": 11.0},
                             "towers": [{"name": "zeta", "lat": 50.0001, "lon": 11.0, "z_m": 4.0}, {"name": "alpha", "lat": 50.0, "lon": 11.0002, "z_m": 5.0}, {"name": "m", "lat": 50.0, "lon": 11.0, "z_m": 3.0}],
                             "met": {"ustar": [0.3, 0.4, 0.3], "mol": -100.0, "wind_speed": 3.0, "wind_dir": 270.0},
                             "solver": {"footprint": True, "precision": "double"}, "parallel": {"use_cache": True}})
    import hashlib

    for strat in ("towers", "time", "both"):
        for w in (1, 2, 4):
            res = bi.run_bldfm_parallel(cfg, max_workers=w, parallel_over=strat)
            h = hashlib.sha256()
            for name, lst in res.items():
                h.update(name.encode())
                for r in lst:
                    h.update(np.ascontiguousarray(r["flx"]).tobytes())
                    h.update(np.ascontiguousarray(r["conc"]).tobytes())
                    h.update(repr((r["tower_name"], r["tower_xy"], r["timestamp"], sorted(r["params"].items()))).encode())
            out[f"driver_{strat}_w{w}"] = [list(res), h.hexdigest()[:16]]
    return out


def child(mode):
    import tempfile

    os.chdir(tempfile.mkdtemp())
    os.environ.setdefault("NUMBA_CACHE_DIR", os.path.join(os.getcwd(), "nb"))
    sys.path.insert(0, os.path.join(os.environ.get("BLDFM_VERIF_REPO", "/repo"), "src"))
    import concurrent.futures as cf

    if mode == "sim":
        import random

        from sim import pool as simpool
        from sim.core import Chooser, EventLog

        simpool.install()
        sched = simpool.Scheduler(Chooser(rng=random.Random(int(os.environ.get("DIFF_SEED", "1")))), EventLog(), mode="uniform", rng=random.Random(2))
        simpool.set_scheduler(sched)
    else:
        import multiprocessing as mp

        mp.set_start_method("fork", force=True)
    out = scenarios(cf)
    print("RESULT " + json.dumps(out, sort_keys=True), flush=True)
    os._exit(0)


def main():
    if len(sys.argv) > 2 and sys.argv[1] == "--child":
        child(sys.argv[2])
    res = {}
    for mode, seed in (("real", 0), ("sim", 1), ("sim", 2), ("sim", 3)):
        env = dict(os.environ, PYTHONDONTWRITEBYTECODE="1", DIFF_SEED=str(seed))
        p = subprocess.run(["/venv/bin/python", os.path.abspath(__file__), "--child", mode], env=env, capture_output=True, text=True, timeout=1800)
        line = [l for l in p.stdout.splitlines() if l.startswith("RESULT ")]
        if not line:
            print(p.stdout[-2000:], p.stderr[-3000:])
            raise SystemExit(f"{mode}: no result")
        res[f"{mode}{seed}"] = json.loads(line[0][7:])
    ok = True
    for k in sorted(res["real0"]):
        vals = {name: json.dumps(r.get(k), sort_keys=True) for name, r in res.items()}
        same = len(set(vals.values())) == 1
        ok &= same
        print(("same   " if same else "DIFFER ") + k + ("" if same else " " + json.dumps(vals)))
    json.dump({"agree": ok, "scenarios": len(res["real0"])}, open(os.path.join(V, "selftest", "differential_pool_report.json"), "w"))
    return 0 if ok else 1


if __name__ == "__main__":
    sys.exit(main())
