"""No-false-alarm sweep: the quick checks under many VERIF_SEEDs on the
unchanged tree must all exit 0.  usage: seeds.py [first] [count]"""
import json
import os
import subprocess
import sys
import time

V = os.path.dirname(os.path.dirname(os.path.abspath(__file__)))
first = int(sys.argv[1]) if len(sys.argv) > 1 else 1
count = int(sys.argv[2]) if len(sys.argv) > 2 else 20
tier = sys.argv[3] if len(sys.argv) > 3 else "quick"
rep = {}
bad = 0
for seed in range(first, first + count):
    for prop in ("C15", "C14", "C12"):
        t0 = time.time()
        env = dict(os.environ, VERIF_SEED=str(seed))
        env.pop("BLDFM_VERIF_BOOT", None)
        p = subprocess.run([os.path.join(V, "check"), prop, "--tier", tier, "--no-evidence"], env=env, capture_output=True, text=True)
        rep[f"{prop}/seed={seed}"] = {"exit": p.returncode, "wall_s": round(time.time() - t0, 1)}
        print(prop, seed, p.returncode, round(time.time() - t0, 1), flush=True)
        if p.returncode != 0:
            bad += 1
            print(p.stdout[-3000:], flush=True)
    json.dump(rep, open(os.path.join(V, "selftest", f"seeds_report_{tier}_{first}.json"), "w"), indent=1)
sys.exit(1 if bad else 0)
