#!/bin/bash
# Thorough-tier validation on the unchanged tree: exit codes and wall times.
cd "$(dirname "$0")/.."
for p in C15 C14 C12; do
  s=$(date +%s)
  ./check $p --tier thorough --no-evidence > /tmp/thorough-$p.log 2>&1
  rc=$?
  echo "$p thorough exit=$rc wall=$(( $(date +%s) - s ))s : $(grep -E 'search:' /tmp/thorough-$p.log | tail -1)"
  grep -E "VIOLATION|HARNESS" /tmp/thorough-$p.log | head -5
done
