"""Process tree of the checks.

check (master)
 └─ lane k (k = 0..N-1): a zygote that has imported everything from /repo/src
    and installed the seams; it never runs the code under test itself
     └─ run process: one per job (os.fork), private run directory, watchdog

A job is a picklable dict, the result a picklable dict.  A run that does not
finish within its wall-clock budget is killed (whole process group) and comes
back as status 'timeout'; one that dies comes back as 'died' with the tail of
its stderr.  Neither is ever turned into a pass.
"""

import importlib
import os
import pickle
import select
import shutil
import signal
import struct
import sys
import time
import traceback


def _send(fd, obj):
    data = pickle.dumps(obj, protocol=pickle.HIGHEST_PROTOCOL)
    buf = struct.pack("<Q", len(data)) + data
    off = 0
    while off < len(buf):
        off += os.write(fd, buf[off : off + (1 << 20)])


def _recv_exact(fd, n):
    chunks = []
    while n:
        b = os.read(fd, min(n, 1 << 20))
        if not b:
            raise EOFError
        chunks.append(b)
        n -= len(b)
    return b"".join(chunks)


def _recv(fd):
    (n,) = struct.unpack("<Q", _recv_exact(fd, 8))
    return pickle.loads(_recv_exact(fd, n))


def _recv_deadline(fd, seconds, what):
    """_recv that gives up (RuntimeError -> harness error) instead of hanging."""
    deadline = time.monotonic() + seconds
    buf = bytearray()
    need = 8
    n = None
    while True:
        left = deadline - time.monotonic()
        if left <= 0:
            raise RuntimeError(f"no answer from {what} within {seconds:.0f} s")
        rl, _, _ = select.select([fd], [], [], min(left, 1.0))
        if not rl:
            continue
        b = os.read(fd, min(need - len(buf), 1 << 20))
        if not b:
            raise EOFError
        buf += b
        if n is None and len(buf) == 8:
            (n,) = struct.unpack("<Q", bytes(buf))
            need = 8 + n
        if n is not None and len(buf) == need:
            return pickle.loads(bytes(buf[8:]))


def run_in_child(fn, job, timeout, outfile):
    """Run fn(job) in a forked child with a wall-clock watchdog."""
    r, w = os.pipe()
    sys.stdout.flush()
    sys.stderr.flush()
    pid = os.fork()
    if pid == 0:
        code = 0
        try:
            os.close(r)
            os.setsid()
            fd = os.open(outfile, os.O_WRONLY | os.O_CREAT | os.O_TRUNC, 0o644)
            os.dup2(fd, 1)
            os.dup2(fd, 2)
            os.close(fd)
            try:
                res = fn(job)
            except BaseException:
                res = {"status": "harness_error", "error": traceback.format_exc()[-4000:]}
            _send(w, res)
        except BaseException:
            code = 3
        finally:
            os._exit(code)
    os.close(w)
    deadline = time.monotonic() + timeout
    data = bytearray()
    status = None
    try:
        while True:
            left = deadline - time.monotonic()
            if left <= 0:
                status = "timeout"
                break
            rl, _, _ = select.select([r], [], [], min(left, 1.0))
            if rl:
                b = os.read(r, 1 << 20)
                if not b:
                    break
                data += b
                if len(data) >= 8 and len(data) >= 8 + struct.unpack("<Q", bytes(data[:8]))[0]:
                    break  # the whole result is here: do not wait for stragglers holding the pipe
    finally:
        os.close(r)
    if status == "timeout":
        try:
            os.killpg(pid, signal.SIGKILL)
        except ProcessLookupError:
            pass
    _, st = os.waitpid(pid, 0)
    try:
        os.killpg(pid, signal.SIGKILL)  # stragglers (simulated workers)
    except (ProcessLookupError, PermissionError):
        pass
    tail = ""
    if status == "timeout" or len(data) < 8:
        try:
            with open(outfile, "rb") as f:
                tail = f.read()[-3000:].decode("utf-8", "replace")
        except OSError:
            pass
    if status == "timeout":
        return {"status": "timeout", "stderr": tail}
    if len(data) < 8:
        return {"status": "died", "wait_status": st, "stderr": tail}
    (n,) = struct.unpack("<Q", bytes(data[:8]))
    try:
        return pickle.loads(bytes(data[8 : 8 + n]))
    except Exception:
        return {"status": "died", "wait_status": st, "stderr": "unreadable result\n" + tail}


def _lane_main(k, engine_name, ctx, cmd_r, res_w):
    try:
        signal.signal(signal.SIGINT, signal.SIG_IGN)
        engine = importlib.import_module(engine_name)
        lane_dir = os.path.join(ctx["work"], f"lane{k}")
        os.makedirs(lane_dir, exist_ok=True)
        ctx = dict(ctx, lane=k, lane_dir=lane_dir)
        engine.lane_init(ctx)
        _send(res_w, {"lane_ready": k})
        n = 0
        while True:
            job = _recv(cmd_r)
            if job is None:
                break
            n += 1
            run_dir = os.path.join(lane_dir, f"r{n}")
            os.makedirs(run_dir)
            job = dict(job, run_dir=run_dir)
            t0 = time.monotonic()
            if hasattr(engine, "pre_job"):
                job = engine.pre_job(job, ctx)
            res = run_in_child(engine.execute, job, job.get("timeout", ctx.get("timeout", 120)), os.path.join(lane_dir, "out.txt"))
            res["wall"] = time.monotonic() - t0
            res["job_id"] = job.get("job_id")
            shutil.rmtree(run_dir, ignore_errors=True)
            _send(res_w, res)
    except BaseException:
        try:
            _send(res_w, {"lane_error": traceback.format_exc()})
        except BaseException:
            pass
    finally:
        os._exit(0)


class Lanes:
    def __init__(self, engine_name, ctx, n):
        self.engine_name = engine_name
        self.ctx = ctx
        self.lanes = []
        sys.stdout.flush()
        sys.stderr.flush()
        for k in range(n):
            cmd_r, cmd_w = os.pipe()
            res_r, res_w = os.pipe()
            pid = os.fork()
            if pid == 0:
                os.close(cmd_w)
                os.close(res_r)
                for ln in self.lanes:
                    os.close(ln["cmd_w"])
                    os.close(ln["res_r"])
                _lane_main(k, engine_name, ctx, cmd_r, res_w)
            os.close(cmd_r)
            os.close(res_w)
            self.lanes.append({"pid": pid, "cmd_w": cmd_w, "res_r": res_r, "busy": None, "ready": False})
        for ln in self.lanes:
            msg = _recv_deadline(ln["res_r"], 600, "a lane at start-up")
            if "lane_error" in msg:
                self.close()
                raise RuntimeError("lane failed to start:\n" + msg["lane_error"])
            ln["ready"] = True

    def run(self, jobs, on_result=None, stop=None):
        """Run jobs (list of dicts); returns results in job order.

        stop: optional callable(result) -> bool; once it returns True no new
        jobs are dispatched (running ones finish)."""
        jobs = list(jobs)
        results = [None] * len(jobs)
        nxt = 0
        pending = 0
        stopped = False
        by_fd = {ln["res_r"]: ln for ln in self.lanes}
        while True:
            for ln in self.lanes:
                if ln["busy"] is None and nxt < len(jobs) and not stopped:
                    j = dict(jobs[nxt], job_id=nxt)
                    _send(ln["cmd_w"], j)
                    ln["busy"] = nxt
                    nxt += 1
                    pending += 1
            if pending == 0:
                break
            rl, _, _ = select.select(list(by_fd), [], [], 5.0)
            for fd in rl:
                ln = by_fd[fd]
                try:
                    res = _recv(fd)
                except EOFError:
                    raise RuntimeError(f"lane {ln['pid']} died")
                if "lane_error" in res:
                    raise RuntimeError("lane error:\n" + res["lane_error"])
                idx = ln["busy"]
                ln["busy"] = None
                pending -= 1
                results[idx] = res
                if on_result is not None:
                    on_result(idx, res)
                if stop is not None and stop(res):
                    stopped = True
        return results

    def close(self):
        for ln in self.lanes:
            try:
                _send(ln["cmd_w"], None)
            except OSError:
                pass
        for ln in self.lanes:
            try:
                os.close(ln["cmd_w"])
            except OSError:
                pass
        deadline = time.monotonic() + 10
        for ln in self.lanes:
            while time.monotonic() < deadline:
                p, _ = os.waitpid(ln["pid"], os.WNOHANG)
                if p:
                    break
                time.sleep(0.02)
            else:
                try:
                    os.kill(ln["pid"], signal.SIGKILL)
                    os.waitpid(ln["pid"], 0)
                except OSError:
                    pass
            try:
                os.close(ln["res_r"])
            except OSError:
                pass
        self.lanes = []
