"""Delta debugging over a decision record.

A candidate is accepted only if the *same violation class* recurs.  Candidates
are evaluated in fresh run processes (through the lanes), a batch at a time;
within a batch the first reproducing candidate in list order wins, so the
result does not depend on which lane finished first.
"""

import copy
import json
import time


def _chunks(n, parts):
    size = max(1, (n + parts - 1) // parts)
    return [(i, min(n, i + size)) for i in range(0, n, size)]


def shrink(record, cls, evaluate_batch, simplify, budget_s=120.0, max_evals=600, batch=16, log=None, opkey="ops"):
    t0 = time.monotonic()
    evals = 0
    cur = record

    def over():
        return time.monotonic() - t0 > budget_s or evals >= max_evals

    seen = set()

    def try_batch(cands):
        nonlocal evals
        fresh = []
        for c in cands:
            k = json.dumps(c, sort_keys=True, default=str)
            if k not in seen:
                seen.add(k)
                fresh.append(c)
        cands = fresh
        for i in range(0, len(cands), batch):
            if over():
                return None
            part = cands[i : i + batch]
            evals += len(part)
            res = evaluate_batch(part)
            for (c, rec) in res:
                if c == cls:
                    return rec
        return None

    changed = True
    while changed and not over():
        changed = False
        # 1. drop operations (ddmin)
        parts = 2
        while len(cur[opkey]) > 1 and not over():
            n = len(cur[opkey])
            parts = min(parts, n)
            cands = []
            for (a, b) in _chunks(n, parts):
                c = copy.deepcopy(cur)
                del c[opkey][a:b]
                if c[opkey]:
                    cands.append(c)
            got = try_batch(cands)
            if got is not None:
                cur = got
                changed = True
                parts = max(2, parts - 1)
                continue
            if parts >= n:
                break
            parts = min(n, parts * 2)
        # 2. engine-specific simplifications, to a fixpoint
        progress = True
        while progress and not over():
            progress = False
            cands = list(simplify(cur))
            # accept greedily, re-deriving candidates after each success
            got = try_batch(cands)
            if got is not None:
                cur = got
                progress = True
                changed = True
    if log:
        log(f"shrink: {evals} candidate runs, {time.monotonic() - t0:.1f}s, {len(record[opkey])} -> {len(cur[opkey])} ops")
    return cur, evals
