"""SimPool: a deterministic stand-in for concurrent.futures.ProcessPoolExecutor.

Kept real: os.fork workers (all max_workers forked at the first submit, as
CPython 3.12 does for the fork start method), a worker serves many tasks and
keeps its own state, arguments and results cross a pipe pickled, real Future
objects, map() with the stdlib's chunking, BrokenProcessPool when a worker
dies.  Taken over: *who runs when*.  Only one simulated process executes at any
real instant (pipe baton); the scheduler picks, at every step, one of

    dispatch:<w>   hand the head of the FIFO call queue to idle worker w
    run:<w>        let started worker w run to its next yield point / the end
    main           return to the blocked main thread (its wait is satisfied)

Results reach their futures in completion order (one FIFO result queue, as in
the real pool).  The simulation is driven lazily from the blocking points of
the Executor contract: Future.result()/exception(), shutdown(wait=True) /
__exit__, and the sim-aware as_completed()/wait().
"""

import concurrent.futures as cf
import concurrent.futures.process as cfp
import itertools
import os
import pickle
import signal
import struct
import sys
import traceback
from concurrent.futures import Future
from concurrent.futures.process import BrokenProcessPool
from functools import partial

from .core import HarnessError, Violation

_REAL_PPE = cfp.ProcessPoolExecutor
_REAL_AS_COMPLETED = cf.as_completed
_REAL_WAIT = cf.wait


def _send(fd, obj):
    data = pickle.dumps(obj, protocol=pickle.HIGHEST_PROTOCOL)
    buf = struct.pack("<Q", len(data)) + data
    off = 0
    while off < len(buf):
        off += os.write(fd, buf[off : off + (1 << 20)])


def _recv_exact(fd, n):
    chunks = []
    while n:
        b = os.read(fd, min(n, 1 << 20))
        if not b:
            raise EOFError
        chunks.append(b)
        n -= len(b)
    return b"".join(chunks)


def _recv(fd):
    (n,) = struct.unpack("<Q", _recv_exact(fd, 8))
    return pickle.loads(_recv_exact(fd, n))


class _RemoteTraceback(Exception):
    def __init__(self, tb):
        self.tb = tb

    def __str__(self):
        return self.tb


class InjectedWorkerFault(OSError):
    """The simulator's task-level fault: a worker task fails (transient I/O error,
    lost result).  Raised inside the worker only, never in the parent."""


class Scheduler:
    """One per run: owns every pool, every worker, the schedule and its log."""

    def __init__(self, chooser, log, mode="uniform", rng=None, pct_changes=(), stalls=(), step_cap=200000, disk=None, fails=()):
        self.chooser = chooser
        self.log = log
        self.mode = mode
        self.rng = rng
        self.pct_changes = set(pct_changes)
        self.stalls = list(stalls)  # (at_step, worker_ordinal, duration)
        self.fails = {int(o): how for o, how in fails}  # task ordinal -> "before" | "after" (injected task failure)
        self.failed = []  # ordinals whose failure actually fired
        self.step = 0
        self.step_cap = step_cap
        self.pools = []
        self.workers = []  # all workers of all pools, by ordinal
        self.completed = []  # tasks in completion order (global)
        self.disk = disk
        self.stats = {"dispatch": 0, "run": 0, "main": 0, "yield": 0, "stall_skips": 0, "tasks": 0, "forks": 0,
                      "worker_multi_task": 0, "completion_neq_submission": 0, "interleaved_tasks": 0, "max_concurrent_started": 0,
                      "task_failures_injected": 0}
        self.prio = {}
        self.assign = []  # (task ordinal, worker ordinal)
        self.stalled_until = {}
        self.in_worker = False
        self.yield_kinds = {}
        self.idle_polls = 0

    # -- priorities (PCT) -----------------------------------------------------
    def _priority(self, w):
        if w.ordinal not in self.prio:
            self.prio[w.ordinal] = self.rng.random() if self.rng is not None else 0.0
        return self.prio[w.ordinal]

    def _pick(self, enabled):
        """enabled: list of (label, worker or None)."""
        labels = [l for l, _ in enabled]
        if self.chooser.recorded is not None or self.mode == "uniform":
            return self.chooser.choose(labels)
        if self.mode == "bursty":
            # sticky: keep running the same worker with probability 0.85
            last = self.chooser.made[-1] if self.chooser.made else None
            if last in labels and last.startswith("run:") and self.rng.random() < 0.85:
                self.chooser.made.append(last)
                return last
            return self.chooser.choose(labels)
        # PCT: highest-priority enabled action; 'main' has its own priority slot
        best = None
        for lab, w in enabled:
            p = self._priority(w) if w is not None else self.prio.setdefault("main", self.rng.random())
            if best is None or p > best[0]:
                best = (p, lab, w)
        if self.step in self.pct_changes and best[2] is not None:
            self.prio[best[2].ordinal] = -self.rng.random()  # demote below everything
        lab = best[1]
        self.chooser.made.append(lab)
        return lab

    # -- the loop ---------------------------------------------------------------
    def drive_until(self, cond, what, timeout=None):
        """Run scheduler steps until cond() holds (and the schedule returns to main).

        timeout: the caller waits with a time limit.  There is no clock on this
        path; a limit can only fire while the delayed-worker fault (a stall) is
        holding back a worker that has unfinished work - then 'timeout' is one
        more action the schedule may choose."""
        if self.in_worker:
            raise HarnessError("pool driven from inside a simulated worker")
        while True:
            satisfied = cond()
            enabled = []
            now_stalled = set()
            for (at, wo, dur) in self.stalls:
                if at <= self.step < at + dur:
                    now_stalled.add(wo)
            for pool in self.pools:
                if pool._broken:
                    continue
                idle = [w for w in pool._workers if w.alive and w.task is None]
                if pool._queue and idle:
                    for w in idle:
                        enabled.append((f"dispatch:{w.ordinal}", w))
                for w in pool._workers:
                    if w.alive and w.task is not None and not w.waiting:
                        enabled.append((f"run:{w.ordinal}", w))
            if not any(l.startswith("run:") for l, _ in enabled):
                # only waiters (blocked on a lock / sleeping) could run: let them
                # poll again - but a system in which nobody else can ever move is stuck
                waiters = [w for w in self.workers if w.alive and w.task is not None and w.waiting]
                if waiters and not any(l.startswith("dispatch:") for l, _ in enabled):
                    self.idle_polls += 1
                    if self.idle_polls > 3000:
                        raise Violation("liveness", "deadlock", f"every started worker waits (lock / sleep) and nothing else can move while main waits for {what}", {})
                    for w in waiters:
                        w.waiting = False
                        enabled.append((f"run:{w.ordinal}", w))
            unstalled = [(l, w) for l, w in enabled if w.ordinal not in now_stalled]
            if unstalled:
                if len(unstalled) != len(enabled):
                    self.stats["stall_skips"] += 1
                enabled = unstalled
            if satisfied:
                enabled.append(("main", None))
            elif timeout is not None and any(w.alive and w.task is not None and w.ordinal in now_stalled for w in self.workers):
                enabled.append(("timeout", None))
            if not enabled:
                raise Violation("liveness", "deadlock", f"main thread waits for {what} but no simulated process can move", {})
            enabled.sort(key=lambda e: e[0])
            lab = self._pick(enabled)
            self.step += 1
            if self.step > self.step_cap:
                raise Violation("liveness", "no-progress", f"step cap {self.step_cap} reached while waiting for {what}", {})
            if lab == "main":
                self.stats["main"] += 1
                self.log.add(self.step, "main")
                return
            if lab == "timeout":
                self.stats["timeouts_fired"] = self.stats.get("timeouts_fired", 0) + 1
                self.log.add(self.step, "timeout")
                raise cf.TimeoutError()
            kind, wo = lab.split(":")
            w = self.workers[int(wo)]
            if kind == "dispatch":
                w.pool._dispatch(w)
            else:
                w.pool._run(w)
            started = sum(1 for x in self.workers if x.alive and x.task is not None and x.started)
            if started > self.stats["max_concurrent_started"]:
                self.stats["max_concurrent_started"] = started
            if started > 1:
                self.stats["interleaved_tasks"] += 1


class _Worker:
    def __init__(self, pool, ordinal, pid, cmd_w, msg_r):
        self.pool = pool
        self.ordinal = ordinal
        self.pid = pid
        self.cmd_w = cmd_w
        self.msg_r = msg_r
        self.alive = True
        self.task = None
        self.started = False
        self.waiting = False
        self.served = 0


class _Task:
    def __init__(self, ordinal, future, payload):
        self.ordinal = ordinal
        self.future = future
        self.payload = payload
        self.done = False


class SimFuture(Future):
    def __init__(self, pool):
        super().__init__()
        self._sim_pool = pool

    def result(self, timeout=None):
        if not self.done():
            self._sim_pool._sched.drive_until(self.done, "a future's result", timeout)
        return super().result(0)

    def exception(self, timeout=None):
        if not self.done():
            self._sim_pool._sched.drive_until(self.done, "a future's exception", timeout)
        return super().exception(0)


_current = {"sched": None}


def set_scheduler(s):
    _current["sched"] = s


def _worker_main(ordinal, cmd_r, msg_w, initializer, initargs, sched):
    """Body of a simulated worker process (a real fork of the run process)."""
    sched.in_worker = True
    disk = sched.disk

    def wait_go():
        cmd = _recv(cmd_r)
        if cmd[0] == "exit":
            os._exit(0)
        return cmd

    def yield_hook(_disk, idx, kind, rel, info):
        _send(msg_w, ("yield", kind))
        wait_go()

    if disk is not None:
        disk.hook = yield_hook
        disk.journal = []
    _cooperative_blocking(lambda kind: (_send(msg_w, ("yield", kind)), wait_go()))
    first = True
    try:
        while True:
            cmd = wait_go()
            if cmd[0] != "task":
                continue
            _send(msg_w, ("accepted",))
            wait_go()
            if first and initializer is not None:
                first = False
                try:
                    initializer(*initargs)
                except BaseException:
                    os._exit(1)  # the real pool marks itself broken
            first = False
            try:
                fn, args, kwargs = pickle.loads(cmd[1])
                how = cmd[2] if len(cmd) > 2 else None
                if how == "before":
                    raise InjectedWorkerFault(5, "injected transient failure of a worker task (before it ran)")
                res = fn(*args, **kwargs)
                if how == "after":
                    raise InjectedWorkerFault(5, "injected transient failure of a worker task (result lost)")
                payload = ("ok", pickle.dumps(res, protocol=pickle.HIGHEST_PROTOCOL))
            except BaseException as e:
                tb = "".join(traceback.format_exception(type(e), e, e.__traceback__))
                try:
                    payload = ("exc", pickle.dumps(e), tb)
                except Exception:
                    payload = ("exc", pickle.dumps(RuntimeError(repr(e))), tb)
            if disk is not None:
                disk.journal = []
            _send(msg_w, ("done", payload))
    except BaseException:
        traceback.print_exc()
        sys.stderr.flush()
    finally:
        os._exit(0)


def _cooperative_blocking(yield_to_scheduler):
    """Inside a simulated worker nothing may block for real on another
    simulated process (that one is parked until the scheduler lets it run):
    advisory file locks become try-lock + yield, sleeping becomes a yield."""
    import fcntl
    import threading
    import time as _time

    real_flock, real_lockf, real_sleep = fcntl.flock, fcntl.lockf, _time.sleep

    def main_thread():
        return threading.current_thread() is threading.main_thread()

    def flock(fd, operation):
        if operation & (fcntl.LOCK_UN | fcntl.LOCK_NB) or not main_thread():
            return real_flock(fd, operation)
        while True:
            try:
                return real_flock(fd, operation | fcntl.LOCK_NB)
            except (BlockingIOError, PermissionError):
                yield_to_scheduler("LOCKWAIT")

    def lockf(fd, cmd, *a):
        if cmd & (fcntl.LOCK_UN | fcntl.LOCK_NB) or not main_thread():
            return real_lockf(fd, cmd, *a)
        while True:
            try:
                return real_lockf(fd, cmd | fcntl.LOCK_NB, *a)
            except (BlockingIOError, PermissionError):
                yield_to_scheduler("LOCKWAIT")

    def sleep(seconds):
        if not main_thread():
            return real_sleep(seconds)  # helper threads are not simulated processes
        yield_to_scheduler("SLEEP")  # virtual: simulated time is counted in steps

    fcntl.flock, fcntl.lockf, _time.sleep = flock, lockf, sleep


class SimPool(cf.Executor):
    def __new__(cls, max_workers=None, mp_context=None, initializer=None, initargs=(), **kw):
        # a pool with another start method (spawn, forkserver) shares nothing the
        # simulator could interleave at file-operation granularity: hand out the
        # real executor (uncontrolled schedule, real behaviour)
        if mp_context is not None:
            try:
                if mp_context.get_start_method() != "fork":
                    return _REAL_PPE(max_workers=max_workers, mp_context=mp_context, initializer=initializer, initargs=initargs, **kw)
            except Exception:
                pass
        return super().__new__(cls)

    def __init__(self, max_workers=None, mp_context=None, initializer=None, initargs=(), *, max_tasks_per_child=None):
        sched = _current["sched"]
        if sched is None:
            raise HarnessError("SimPool created outside a simulated run")
        if max_workers is None:
            max_workers = min(5, os.cpu_count() or 1)
        if max_workers <= 0:
            raise ValueError("max_workers must be greater than 0")
        if initializer is not None and not callable(initializer):
            raise TypeError("initializer must be a callable")
        if mp_context is not None:
            try:
                method = mp_context.get_start_method()
            except Exception:
                method = "fork"
            if method != "fork":
                raise HarnessError(f"SimPool cannot simulate the {method!r} start method")
        if max_tasks_per_child is not None:
            raise ValueError("max_tasks_per_child is incompatible with the 'fork' multiprocessing start method; supply a different mp_context.")
        self._sched = sched
        self._max_workers = max_workers
        self._initializer = initializer
        self._initargs = initargs
        self._workers = []
        self._queue = []
        self._tasks = []
        self._shutdown = False
        self._broken = False
        self._launched = False
        sched.pools.append(self)
        sched.log.add(sched.step, "pool", max_workers)

    # -- internals ---------------------------------------------------------------
    def _launch(self):
        self._launched = True
        s = self._sched
        for _ in range(self._max_workers):
            cmd_r, cmd_w = os.pipe()
            msg_r, msg_w = os.pipe()
            ordinal = len(s.workers)
            sys.stdout.flush()
            sys.stderr.flush()
            pid = os.fork()
            if pid == 0:
                os.close(cmd_w)
                os.close(msg_r)
                for w in s.workers:
                    for fd in (w.cmd_w, w.msg_r):
                        if fd is None:
                            continue
                        try:
                            os.close(fd)
                        except OSError:
                            pass
                _worker_main(ordinal, cmd_r, msg_w, self._initializer, self._initargs, s)
            os.close(cmd_r)
            os.close(msg_w)
            w = _Worker(self, ordinal, pid, cmd_w, msg_r)
            self._workers.append(w)
            s.workers.append(w)
            s.stats["forks"] += 1
        s.log.add(s.step, "fork", self._max_workers)

    def _died(self, w, why):
        s = self._sched
        w.alive = False
        self._broken = True
        s.log.add(s.step, "worker-died", w.ordinal)
        try:
            os.waitpid(w.pid, 0)
        except OSError:
            pass
        exc = BrokenProcessPool("A process in the process pool was terminated abruptly while the future was running or pending.")
        for t in self._tasks:
            if not t.done:
                t.done = True
                try:
                    t.future.set_exception(exc)
                except Exception:
                    pass
        self._queue = []
        for x in self._workers:
            x.task = None

    def _dispatch(self, w):
        s = self._sched
        t = self._queue.pop(0)
        while not t.future.set_running_or_notify_cancel():
            t.done = True  # cancelled before it started: never runs
            s.log.add(s.step, "cancelled", t.ordinal)
            if not self._queue:
                return
            t = self._queue.pop(0)
        w.task = t
        w.started = False
        if w.served >= 1:
            s.stats["worker_multi_task"] += 1
        w.served += 1
        s.stats["dispatch"] += 1
        s.assign.append((t.ordinal, w.ordinal))
        s.log.add(s.step, "dispatch", t.ordinal, w.ordinal)
        how = s.fails.get(t.ordinal)
        if how is not None:
            s.stats["task_failures_injected"] += 1
            s.failed.append(t.ordinal)
            s.log.add(s.step, "task-fail", t.ordinal, how)
        try:
            _send(w.cmd_w, ("task", t.payload) if how is None else ("task", t.payload, how))
            msg = _recv(w.msg_r)
            assert msg[0] == "accepted"
        except (EOFError, OSError):
            self._died(w, "at dispatch")

    def _run(self, w):
        s = self._sched
        s.stats["run"] += 1
        w.started = True
        try:
            _send(w.cmd_w, ("go",))
            msg = _recv(w.msg_r)
        except (EOFError, OSError):
            self._died(w, "while running")
            return
        if msg[0] == "yield":
            s.stats["yield"] += 1
            s.yield_kinds[msg[1]] = s.yield_kinds.get(msg[1], 0) + 1
            s.log.add(s.step, "yield", w.ordinal, msg[1])
            if msg[1] in ("LOCKWAIT", "SLEEP"):
                w.waiting = True  # not scheduled again before somebody else made a step
            else:
                s.idle_polls = 0
                for x in s.workers:
                    if x is not w:
                        x.waiting = False
            return
        assert msg[0] == "done"
        t = w.task
        w.task = None
        w.started = False
        w.waiting = False
        s.idle_polls = 0
        for x in s.workers:
            x.waiting = False
        t.done = True
        if any(c.ordinal > t.ordinal for c in s.completed):
            s.stats["completion_neq_submission"] += 1  # overtaken by a later-submitted task (statistic only, not logged)
        s.completed.append(t)
        s.stats["tasks"] += 1
        s.log.add(s.step, "done", t.ordinal, w.ordinal)
        payload = msg[1]
        if payload[0] == "ok":
            try:
                t.future.set_result(pickle.loads(payload[1]))
            except BaseException as e:
                t.future.set_exception(e)
        else:
            try:
                exc = pickle.loads(payload[1])
            except BaseException as e:
                exc = RuntimeError(f"unpicklable exception from worker: {e}")
            exc.__cause__ = _RemoteTraceback(payload[2])
            t.future.set_exception(exc)

    # -- Executor API ------------------------------------------------------------
    def submit(self, fn, /, *args, **kwargs):
        if self._broken:
            raise BrokenProcessPool("A child process terminated abruptly, the process pool is not usable anymore")
        if self._shutdown:
            raise RuntimeError("cannot schedule new futures after shutdown")
        s = self._sched
        f = SimFuture(self)
        t = _Task(sum(len(p._tasks) for p in s.pools), f, None)
        self._tasks.append(t)
        try:
            t.payload = pickle.dumps((fn, args, kwargs), protocol=pickle.HIGHEST_PROTOCOL)
        except BaseException as e:
            t.done = True
            f.set_running_or_notify_cancel()
            f.set_exception(e)
            return f
        self._queue.append(t)
        s.log.add(s.step, "submit", t.ordinal)
        if not self._launched:
            self._launch()
        return f

    def map(self, fn, *iterables, timeout=None, chunksize=1):
        if chunksize < 1:
            raise ValueError("chunksize must be >= 1.")
        results = super().map(partial(cfp._process_chunk, fn), cfp._get_chunks(*iterables, chunksize=chunksize), timeout=timeout)
        return cfp._chain_from_iterable_of_lists(results)

    def shutdown(self, wait=True, *, cancel_futures=False):
        s = self._sched
        self._shutdown = True
        if cancel_futures:
            for t in list(self._queue):
                if t.future.cancel():
                    t.done = True
            self._queue = [t for t in self._queue if not t.done]
        if wait and not self._broken:
            s.drive_until(lambda: self._broken or all(t.done for t in self._tasks), "pool shutdown")
        if wait or self._broken:
            self._reap()

    def _reap(self):
        for w in self._workers:
            if w.alive:
                w.alive = False
                try:
                    _send(w.cmd_w, ("exit",))
                except OSError:
                    pass
                try:
                    os.waitpid(w.pid, 0)
                except OSError:
                    pass
            for fd in (w.cmd_w, w.msg_r):
                if fd is None:
                    continue
                try:
                    os.close(fd)
                except OSError:
                    pass
            w.cmd_w = w.msg_r = None
        self._sched.log.add(self._sched.step, "reaped", len(self._workers))


def sim_as_completed(fs, timeout=None):
    fs = list(dict.fromkeys(fs))
    sims = [f for f in fs if isinstance(f, SimFuture)]
    if not sims:
        yield from _REAL_AS_COMPLETED(fs, timeout)
        return
    sched = sims[0]._sim_pool._sched
    pending = set(fs)
    order = {}

    def stamp():
        # simulated completion order of the futures that are done
        pos = {t.future: k for k, t in enumerate(sched.completed)}
        return pos

    while pending:
        if not any(f.done() for f in pending):
            sched.drive_until(lambda: any(f.done() for f in pending), "as_completed", timeout)
        pos = stamp()
        ready = sorted((f for f in pending if f.done()), key=lambda f: pos.get(f, -1))
        for f in ready:
            pending.discard(f)
            yield f


def sim_wait(fs, timeout=None, return_when=cf.ALL_COMPLETED):
    fs = list(dict.fromkeys(fs))
    sims = [f for f in fs if isinstance(f, SimFuture)]
    if not sims:
        return _REAL_WAIT(fs, timeout, return_when)
    sched = sims[0]._sim_pool._sched

    def cond():
        done = [f for f in fs if f.done()]
        if return_when == cf.FIRST_COMPLETED:
            return bool(done)
        if return_when == cf.FIRST_EXCEPTION:
            return len(done) == len(fs) or any((not f.cancelled()) and f.exception(0) is not None for f in done)
        return len(done) == len(fs)

    if not cond():
        try:
            sched.drive_until(cond, "wait", timeout)
        except cf.TimeoutError:
            pass  # wait() returns what is done so far
    done = {f for f in fs if f.done()}
    return cf._base.DoneAndNotDoneFutures(done, set(fs) - done)


def install():
    """Must run before bldfm is imported (it does `from concurrent.futures import ProcessPoolExecutor`)."""
    cf.ProcessPoolExecutor = SimPool
    cfp.ProcessPoolExecutor = SimPool
    cf.as_completed = sim_as_completed
    cf.wait = sim_wait
    cf._base.as_completed = sim_as_completed
    cf._base.wait = sim_wait
