"""Simulator core: seeds, decision records, event log, array digests.

One integer (VERIF_SEED) decides everything.  Run i of property P gets
seed_i = sha256(f"{VERIF_SEED}/{P}/{i}"); a run derives three independent
streams (gen / sched / fault).  Every draw that matters is materialised into
the decision record; replay consumes the record and never touches a PRNG.
"""

import hashlib
import json
import os
import random

import numpy as np


def run_seed(master, prop, index):
    h = hashlib.sha256(f"{master}/{prop}/{index}".encode()).hexdigest()
    return int(h[:16], 16)


def stream(seed, name):
    h = hashlib.sha256(f"{seed}/{name}".encode()).hexdigest()
    return random.Random(int(h[:16], 16))


class SimCrash(BaseException):
    """Raised from inside a journal operation: the simulated process dies here.

    BaseException so that `except Exception` in the code under test does not
    swallow it - a killed process executes no handler at all.
    """


class HarnessError(Exception):
    """The simulator itself is wrong or met something it does not model."""


class Violation(Exception):
    def __init__(self, clause, kind, detail, extra=None):
        super().__init__(f"{clause}/{kind}: {detail}")
        self.clause = clause
        self.kind = kind
        self.detail = detail
        self.extra = extra or {}

    def as_dict(self):
        d = {"clause": self.clause, "kind": self.kind, "detail": self.detail}
        d.update(self.extra)
        return d


def canon(obj):
    """Canonical JSON text of a JSON-able object (sorted keys, no spaces)."""
    return json.dumps(obj, sort_keys=True, separators=(",", ":"))


def sha(obj):
    if isinstance(obj, (bytes, bytearray, memoryview)):
        return hashlib.sha256(bytes(obj)).hexdigest()
    return hashlib.sha256(canon(obj).encode()).hexdigest()


def arr_digest(a):
    """Digest of an array: dtype, shape and bytes (C order)."""
    a = np.asarray(a)
    h = hashlib.sha256()
    h.update(str(a.dtype).encode())
    h.update(str(a.shape).encode())
    h.update(np.ascontiguousarray(a).tobytes())
    return h.hexdigest()[:20]


def result_digest(res):
    """Digest of a solver result (grid, conc, flx)."""
    grid, conc, flx = res
    return sha([arr_digest(g) for g in grid] + [arr_digest(conc), arr_digest(flx)])[:20]


class EventLog:
    """Append-only abstract event list; its sha256 is the run digest.

    Never contains pids, wall-clock readings, absolute paths or object ids.
    Logging never draws from a PRNG and never reads a clock.
    """

    def __init__(self, keep=400):
        self.events = []
        self.n = 0
        self.h = hashlib.sha256()
        self.keep = keep

    def add(self, *ev):
        line = canon(list(ev))
        self.h.update(line.encode())
        self.h.update(b"\n")
        self.n += 1
        if len(self.events) < self.keep:
            self.events.append(list(ev))

    def digest(self):
        return self.h.hexdigest()[:24]


class Chooser:
    """Schedule/fault decisions: drawn from a PRNG when generating, read from
    the record when replaying.  Every decision is materialised in `.made`.

    A decision is a label out of a list of enabled labels.  On replay, if the
    recorded label is not enabled (the record was shrunk) the default policy
    applies: the first enabled label.
    """

    def __init__(self, rng=None, recorded=None):
        self.rng = rng
        self.recorded = list(recorded) if recorded is not None else None
        self.pos = 0
        self.made = []
        self.defaulted = 0

    def choose(self, enabled, weights=None):
        assert enabled
        if self.recorded is not None:
            lab = self.recorded[self.pos] if self.pos < len(self.recorded) else None
            self.pos += 1
            if lab not in enabled:
                lab = enabled[0]
                self.defaulted += 1
        else:
            if weights is None:
                lab = enabled[self.rng.randrange(len(enabled))]
            else:
                lab = self.rng.choices(enabled, weights=weights, k=1)[0]
        self.made.append(lab)
        return lab


def rel_err(a, b):
    """max-norm relative difference of two arrays (relative to max |b|)."""
    a = np.asarray(a, dtype=np.float64)
    b = np.asarray(b, dtype=np.float64)
    if a.shape != b.shape:
        return float("inf")
    if a.size == 0:
        return 0.0
    d = float(np.max(np.abs(a - b)))
    if not np.isfinite(d):
        # identical non-finite patterns count as equal
        if np.array_equal(a, b, equal_nan=True):
            return 0.0
        return float("inf")
    m = float(np.max(np.abs(b)))
    if m == 0.0:
        return 0.0 if d == 0.0 else float("inf")
    return d / m


def env_int(name, default):
    try:
        return int(os.environ.get(name, default))
    except ValueError:
        return default


def seed_tempfile(seed):
    """tempfile draws names from a private per-process RNG: re-seed it so that
    directory listings (and therefore replays) do not depend on it."""
    import tempfile

    ns = tempfile._get_candidate_names()
    ns._rng = random.Random(seed)
    ns._rng_pid = os.getpid()


class NameCanon:
    """Canonical names for the event log: content-addressed entries keep a
    short form of their name, anything else becomes tmp#k by first appearance."""

    def __init__(self):
        self.map = {}

    def __call__(self, rel):
        base = os.path.basename(rel)
        stem = base[:-4] if base.endswith(".npz") else base
        if len(stem) == 64 and all(c in "0123456789abcdef" for c in stem):
            return os.path.join(os.path.dirname(rel), stem[:10] + base[len(stem):])
        if rel not in self.map:
            self.map[rel] = f"tmp#{len(self.map)}"
        return self.map[rel]
