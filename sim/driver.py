"""Check driver shared by the three engines.

./check <ID> [--tier quick|thorough] [--replay FILE] [--runs N] [--lanes N]

exit 0  the property held on everything explored (KNOWN-FINDING lines allowed)
exit 1  VIOLATION property=<id> replay=<path>
exit 2  harness error (never a pass, never a VIOLATION)
"""

import argparse
import importlib
import json
import os
import subprocess
import sys
import time

from . import env
from .core import canon, run_seed, sha
from .harness import Lanes
from .shrink import shrink

ENGINES = {"C15": "engines.cachesim", "C14": "engines.poolsim", "C12": "engines.histsim"}
LEVEL = {"C15": "fault_enumeration", "C14": "exploration", "C12": "exploration"}


def log(msg):
    print(f"[check] {msg}", flush=True)


def load_known(prop):
    p = os.path.join(env.VERIF, "known_findings.json")
    try:
        with open(p) as f:
            data = json.load(f)
    except FileNotFoundError:
        return []
    return [k for k in data.get("findings", []) if k.get("property") == prop and k.get("status") == "open"]


def match_known(known, v):
    """A known finding matches a violation iff every key of its matcher equals
    the violation's value (matchers name the minimal cause)."""
    for k in known:
        m = k.get("match", {})
        if m and all(canon(v.get(kk)) == canon(vv) for kk, vv in m.items()):
            return k
    return None


def _env_int(name, default, lo=None, hi=None):
    """Any value of the variable must work: integers as they are, anything else
    through a hash."""
    v = os.environ.get(name, "")
    if not v.strip():
        return default
    try:
        n = int(v.strip(), 0)
    except ValueError:
        import hashlib

        n = int(hashlib.sha256(v.encode()).hexdigest()[:12], 16)
    if lo is not None and hi is not None and not (lo <= n <= hi):
        n = default
    return n


def parse_args(argv):
    ap = argparse.ArgumentParser()
    ap.add_argument("prop")
    ap.add_argument("--tier", default=os.environ.get("VERIF_TIER", "quick"))
    ap.add_argument("--replay")
    ap.add_argument("--runs", type=int)
    ap.add_argument("--lanes", type=int, default=_env_int("VERIF_LANES", 16, lo=1, hi=64))
    ap.add_argument("--no-evidence", action="store_true")
    ap.add_argument("--no-shrink", action="store_true")
    ap.add_argument("--digests", help="write job digests to this file (determinism self-test)")
    ap.add_argument("--dump", help="replay: write the full run result (events, stats) to this file")
    ap.add_argument("--budget", type=float, help="wall-clock budget in seconds for the search phase")
    return ap.parse_args(argv)


def main(argv=None):
    args = parse_args(argv if argv is not None else sys.argv[1:])
    if args.tier not in ("quick", "thorough"):
        args.tier = "quick"
    prop = args.prop
    if prop not in ENGINES:
        print(f"unknown property {prop}", file=sys.stderr)
        return 2
    env.reexec_if_needed()
    t_start = time.monotonic()
    master_seed = _env_int("VERIF_SEED", 0)
    sys.path.insert(0, env.VERIF)
    env.use_repo_sources()
    work = env.work_root()
    try:
        states, prep_s = env.prepare_numba_states()
    except Exception as e:
        log(f"HARNESS-ERROR preparing numba cache states: {e}")
        return 2
    if prep_s:
        log(f"numba cache states built from {env.repo_path()} in {prep_s:.1f}s")
    engine = importlib.import_module(ENGINES[prop])
    ctx = {"work": work, "numba_states": states, "repo": env.repo_path(), "tier": args.tier, "timeout": 180, "seed": master_seed}
    try:
        lanes = Lanes(ENGINES[prop], ctx, args.lanes)
    except Exception as e:
        log(f"HARNESS-ERROR starting lanes: {e}")
        return 2
    try:
        if args.replay:
            return do_replay(args, engine, lanes, prop)
        return do_check(args, engine, lanes, prop, master_seed, t_start, ctx)
    except Exception:
        import traceback

        log("HARNESS-ERROR " + traceback.format_exc()[-3000:])
        return 2
    finally:
        try:
            lanes.close()
        except Exception:
            pass


# ----------------------------------------------------------------------------


def vclass(engine, res):
    st = res.get("status")
    if st == "violation":
        return engine.violation_class(res["violation"])
    if st == "timeout":
        return ("liveness", "no-progress", "")
    if st == "died":
        return ("never-fatal", "process-died", "")
    return None


def do_replay(args, engine, lanes, prop):
    with open(args.replay) as f:
        rp = json.load(f)
    job = rp["job"]
    res = lanes.run([job])[0]
    want = rp.get("violation_class")
    got = vclass(engine, res)
    log(f"replay status={res.get('status')} class={got} digest={res.get('digest')}")
    if res.get("status") in ("timeout", "died") and res.get("stderr"):
        log("  output of the run: " + res["stderr"][-2500:])
    if args.dump:
        with open(args.dump, "w") as f:
            json.dump({k: v for k, v in res.items() if k != "record"}, f, indent=1, default=str)
    if res.get("status") == "violation":
        log("  " + res["violation"].get("detail", ""))
        if res["violation"].get("stderr"):
            log("  stderr: " + res["violation"]["stderr"])
    if res.get("status") == "harness_error":
        log("HARNESS-ERROR " + str(res.get("error")))
        return 2
    if got is not None and (want is None or list(got) == list(want)):
        known = load_known(prop)
        v = res.get("violation") or {"clause": got[0], "kind": got[1]}
        k = match_known(known, v)
        if k is not None:
            print(f"KNOWN-FINDING: property={prop} {k['what']}", flush=True)
            return 0
        print(f"VIOLATION property={prop} replay={args.replay}", flush=True)
        return 1
    log("replay did not reproduce the recorded violation")
    return 0


def do_check(args, engine, lanes, prop, master_seed, t_start, ctx):
    tier = args.tier
    plan = engine.plan(tier, master_seed, runs=args.runs)
    jobs = plan["jobs"]
    log(f"{prop} tier={tier} seed={master_seed} jobs={len(jobs)} lanes={args.lanes} repo={env.repo_path()}")
    bad = []
    done = [0]
    budget = args.budget
    t_search = time.monotonic()

    def on_result(i, res):
        done[0] += 1
        if res.get("status") != "ok":
            bad.append(i)
        elif i >= 64:
            # keep the master's memory flat in the thorough tier: the job still
            # holds the record, only the first results keep their event samples
            res.pop("record", None)
            res.pop("events", None)

    def stop(res):
        if budget is not None and time.monotonic() - t_search > budget:
            return True
        return len(bad) >= 40  # enough to diagnose; the tree is broken anyway

    results = lanes.run(jobs, on_result=on_result, stop=stop)
    # a run that hit the wall-clock watchdog is run again, alone, with five times
    # the budget: slowness of a loaded machine is not a property of the code
    slow = [i for i, r in enumerate(results) if r is not None and r.get("status") == "timeout"]
    if slow:
        log(f"{len(slow)} run(s) hit the watchdog; re-running {min(len(slow), 3)} of them with a 3x budget")
        for i in slow[:3]:
            jobs[i] = dict(jobs[i], timeout=3 * jobs[i].get("timeout", ctx.get("timeout", 180)))
        again = lanes.run([jobs[i] for i in slow[:3]])
        for i, r in zip(slow[:3], again):
            results[i] = r
            if r.get("status") == "ok" and i in bad:
                bad.remove(i)
        for i in slow[3:]:
            results[i] = None  # not re-examined: one confirmed hang is enough to report
    executed = [(j, r) for j, r in zip(jobs, results) if r is not None]
    search_s = time.monotonic() - t_search
    log(f"search: {len(executed)}/{len(jobs)} jobs in {search_s:.1f}s, {len(bad)} not ok")

    if hasattr(engine, "health"):
        msg = engine.health(executed)
        if msg:
            log("HARNESS-ERROR " + msg)
            return 2
    # harness errors are fatal for the check's credibility
    for j, r in executed:
        if r.get("status") == "harness_error":
            log("HARNESS-ERROR " + str(r.get("error"))[:2000])
            log("job: " + canon(j)[:1500])
            return 2

    # violations: classify, confirm, shrink, write replay files
    known = load_known(prop)
    violations = []
    classes = {}
    for j, r in executed:
        c = vclass(engine, r)
        if c is not None:
            classes.setdefault(c, []).append((j, r))
    exit_code = 0
    known_lines = []
    max_classes = int(os.environ.get("VERIF_MAX_CLASSES", "4"))
    if len(classes) > max_classes:
        log(f"{len(classes)} violation classes; reporting the first {max_classes} (by class name), the others: " + "; ".join(str(c) for c in sorted(classes, key=str)[max_classes:])[:1500])
    for c, items in sorted(classes.items(), key=lambda kv: str(kv[0]))[:max_classes]:
        j, r = items[0]
        if r.get("status") in ("timeout", "died"):
            r2 = lanes.run([j])[0]
            if r.get("status") == "timeout" and r2.get("status") == "ok":
                log(f"a run timed out even with the 3x budget but finished on another attempt: treated as slowness, not as a violation: {canon(j)[:200]}")
                continue
            if r2.get("status") != r.get("status"):
                log(f"HARNESS-ERROR run ended as {r.get('status')} once and {r2.get('status')} on re-run: {canon(j)[:400]}\n{r.get('stderr', '')[-1500:]}")
                return 2
            v = {"clause": c[0], "kind": c[1], "detail": f"run {r.get('status')}: {r.get('stderr', '')[-600:]}"}
        else:
            v = r["violation"]
        k = match_known(known, v)
        if k is not None:
            known_lines.append(f"KNOWN-FINDING: property={prop} {k['what']}")
            continue
        job = j
        if not args.no_shrink and "record" in j and hasattr(engine, "simplify"):
            def evaluate_batch(cands):
                rs = lanes.run([dict(j, record=cand) for cand in cands])
                return [(vclass(engine, x), x.get("record", cand)) for x, cand in zip(rs, cands)]

            start_rec = r.get("record", j["record"])
            small, evals = shrink(start_rec, c, evaluate_batch, engine.simplify, budget_s=plan.get("shrink_budget_s", 90), log=log,
                                  opkey=getattr(engine, "OPKEY", "ops"))
            job = dict(j, record=small)
            rr = lanes.run([job])[0]
            if vclass(engine, rr) != c:
                job = j  # should not happen; fall back to the unshrunk job
                rr = r
            v = rr.get("violation", v)
        elif "case" in r:
            job = dict(j, **{kk: vv for kk, vv in r["case"].items() if kk != "kind"})
            rr = lanes.run([job])[0]
            if vclass(engine, rr) == c:
                v = rr.get("violation", v)
            else:
                job = j
        os.makedirs(os.path.join(env.VERIF, "replays"), exist_ok=True)
        name = f"{prop}-{sha(job)[:12]}.json"
        path = os.path.join(env.VERIF, "replays", name)
        with open(path, "w") as f:
            json.dump({"property": prop, "violation_class": list(c), "violation": v, "job": job, "seed": job.get("record", {}).get("seed"),
                       "found_with": {"VERIF_SEED": master_seed, "tier": tier}}, f, indent=1, default=str)
        # replay once more in a fresh interpreter before it is believed
        ok = True
        if not os.environ.get("BLDFM_VERIF_NO_FRESH_REPLAY"):
            e2 = dict(os.environ)
            e2.pop("BLDFM_VERIF_BOOT", None)
            tries = 3 if getattr(engine, "NATIVE_NONDETERMINISM", False) else 1
            reproduced = 0
            for _ in range(tries):
                p = subprocess.run([sys.executable, os.path.join(env.VERIF, "check.py"), prop, "--replay", path, "--lanes", "1"], env=e2, capture_output=True, text=True, timeout=900)
                reproduced += 1 if p.returncode == 1 else 0
                if p.returncode == 1:
                    break
            ok = reproduced > 0
            if not ok:
                log(f"fresh-interpreter replay of {path} gave exit {p.returncode}:\n{p.stdout[-1500:]}\n{p.stderr[-800:]}")
                if getattr(engine, "NATIVE_NONDETERMINISM", False):
                    # the history replays exactly, native threads / timing-based
                    # planning inside the library do not (DESIGN.md section 5):
                    # the oracle saw a real execution break the property
                    log(f"replay_reproduced: 0/{tries} - reported anyway: the violation was observed twice in this process tree (search and post-shrink run)")
                    ok = True
        if not ok:
            log("HARNESS-ERROR a violation did not reproduce from its replay file in a fresh interpreter")
            return 2
        log(f"violation class={c}: {v.get('detail', '')[:400]}")
        print(f"VIOLATION property={prop} replay={path}", flush=True)
        violations.append({"class": list(c), "replay": path, "detail": v.get("detail", "")[:400], "occurrences": len(items)})
        exit_code = 1
    for line in sorted(set(known_lines)):
        print(line, flush=True)
    # determinism slice: re-run some jobs, digests must agree (only meaningful on a
    # run without violations: a confirmed, replayed violation stands on its own)
    nslice = plan.get("determinism_slice", 8)
    slice_jobs = [(j, r) for j, r in executed if r.get("status") == "ok" and "digest" in r][:nslice]
    if exit_code != 0:
        slice_jobs = []
    if slice_jobs:
        again = lanes.run([j for j, _ in slice_jobs])
        for (j, r), r2 in zip(slice_jobs, again):
            if r2.get("digest") != r.get("digest"):
                log(f"HARNESS-ERROR non-deterministic run digest for job {canon(j)[:300]}: {r.get('digest')} vs {r2.get('digest')}")
                return 2
    if args.digests:
        with open(args.digests, "w") as f:
            json.dump([r.get("digest") for _, r in executed], f)


    wall = time.monotonic() - t_start
    if not args.no_evidence:
        ev = engine.evidence(plan, executed, tier, master_seed)
        ev["coverage"]["runs_per_hour"] = int(len(executed) / max(search_s, 1e-9) * 3600)
        ev["coverage"]["search_wall_s"] = round(search_s, 2)
        ev["coverage"]["jobs_planned"] = len(jobs)
        ev["coverage"]["jobs_executed"] = len(executed)
        ev["coverage"]["determinism_slice_rerun"] = len(slice_jobs)
        ev["coverage"]["known_findings_reported"] = sorted(set(known_lines))
        ev["coverage"]["violations_reported"] = violations
        ev.update({"property_id": prop, "tier": tier, "seed": master_seed, "level": LEVEL[prop], "wall_s": round(wall, 2), "violations": len(violations)})
        os.makedirs(os.path.join(env.VERIF, "evidence"), exist_ok=True)
        tmp = os.path.join(env.VERIF, "evidence", f".{prop}.json.tmp")
        with open(tmp, "w") as f:
            json.dump(ev, f, indent=1, default=str)
        os.replace(tmp, os.path.join(env.VERIF, "evidence", f"{prop}.json"))
    log(f"done in {wall:.1f}s exit={exit_code}")
    return exit_code
