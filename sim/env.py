"""Bootstrap for the checks: interpreter environment, work directory, prepared
numba on-disk cache states built from /repo's current tree."""

import atexit
import hashlib
import os
import shutil
import signal
import subprocess
import sys
import time

VERIF = os.path.dirname(os.path.dirname(os.path.abspath(__file__)))
PY = "/venv/bin/python"

_ENV = {
    "PYTHONHASHSEED": "0",
    "PYTHONDONTWRITEBYTECODE": "1",
    "NUMBA_NUM_THREADS": "8",
    "OMP_NUM_THREADS": "8",
    "OPENBLAS_NUM_THREADS": "1",
    "MKL_NUM_THREADS": "1",
    "NUMBA_THREADING_LAYER": "omp",
    "OMP_WAIT_POLICY": "passive",
}


def repo_path():
    return os.path.realpath(os.environ.get("BLDFM_VERIF_REPO", "/repo"))


def reexec_if_needed():
    """Fresh interpreter with a fixed hash seed and no bytecode writing."""
    want = dict(_ENV)
    if os.environ.get("BLDFM_VERIF_HASHSEED"):
        want["PYTHONHASHSEED"] = os.environ["BLDFM_VERIF_HASHSEED"]
    if all(os.environ.get(k) == v for k, v in want.items()) and os.environ.get("BLDFM_VERIF_BOOT") == "1":
        return
    env = dict(os.environ)
    env.update(want)
    env["BLDFM_VERIF_BOOT"] = "1"
    env.pop("PYTHONPATH", None)
    os.execve(PY, [PY] + sys.argv, env)


def work_root():
    import tempfile

    base = "/dev/shm" if os.path.isdir("/dev/shm") and os.access("/dev/shm", os.W_OK) else "/tmp"
    # sweep what a killed earlier check left behind (its pid is dead)
    for name in os.listdir(base):
        if not name.startswith("bldfm-verif-"):
            continue
        try:
            pid = int(name.split("-")[2])
            os.kill(pid, 0)
        except (IndexError, ValueError, PermissionError):
            continue
        except ProcessLookupError:
            shutil.rmtree(os.path.join(base, name), ignore_errors=True)
    d = tempfile.mkdtemp(prefix=f"bldfm-verif-{os.getpid()}-", dir=base)
    master = os.getpid()

    def _clean(*_a):
        if os.getpid() == master:
            shutil.rmtree(d, ignore_errors=True)

    atexit.register(_clean)

    def _sig(signum, _f):
        _clean()
        os._exit(128 + signum)

    signal.signal(signal.SIGTERM, _sig)
    signal.signal(signal.SIGINT, _sig)
    return d


def use_repo_sources():
    src = os.path.join(repo_path(), "src")
    if sys.path[0] != src:
        sys.path.insert(0, src)
    return src


def source_key():
    """Key over the repository sources as they are now (content, size, mtime)."""
    src = os.path.join(repo_path(), "src", "bldfm")
    h = hashlib.sha256()
    for name in sorted(os.listdir(src)):
        if not name.endswith(".py"):
            continue
        p = os.path.join(src, name)
        st = os.stat(p)
        h.update(f"{name}:{st.st_size}:{st.st_mtime_ns}:".encode())
        with open(p, "rb") as f:
            h.update(f.read())
    try:
        import numba

        h.update(numba.__version__.encode())
    except Exception:
        pass
    h.update(repo_path().encode())
    h.update(_PREP.encode())
    return h.hexdigest()[:16]


_PREP = r"""
import os, sys
sys.path.insert(0, sys.argv[1])
order = sys.argv[2]
import logging; logging.disable(logging.CRITICAL)
import numpy as np
from bldfm import config
from bldfm.solver import steady_state_transport_solver
def solve(threads):
    config.NUM_THREADS = threads
    z = np.linspace(0.1, 4.0, 5)
    prof = (np.full(5, 2.0), np.full(5, 0.5), np.full(5, 1.0), np.full(5, 1.0), np.linspace(0.2, 1.0, 5))
    # both `levels` signatures the library itself produces: int64 array (scalar level) and list
    for lv in (2, [1, 2]):
        steady_state_transport_solver(np.ones((6, 8)), z, prof, (80.0, 60.0), lv, modes=(4, 4), footprint=True, halo=20.0, precision="double")
    if threads == 1:
        # strided (non-contiguous) profile arrays are another numba signature
        sprof = tuple(np.repeat(p, 2)[::2] for p in prof)
        for lv in (2, [1, 2]):
            steady_state_transport_solver(np.ones((6, 8)), z, sprof, (80.0, 60.0), lv, modes=(4, 4), footprint=True, halo=20.0, precision="double")
for t in {"serial_first": (1, 4), "parallel_first": (4, 1), "parallel_only": (4,)}[order]:
    solve(t)
os._exit(0)
"""


def prepare_numba_states(log=print):
    """Build (or reuse) two numba on-disk cache states from the current tree:
    serial variant compiled first / parallel variant compiled first."""
    key = source_key()
    base = os.path.join(VERIF, ".work", "numba")
    final = os.path.join(base, key)
    states = {s: os.path.join(final, s) for s in ("serial_first", "parallel_first", "parallel_only")}
    if os.path.isdir(final) and all(os.path.isdir(p) and os.listdir(p) for p in states.values()):
        try:
            os.utime(final)  # in use: keep it away from the stale-state sweep
        except OSError:
            pass
        return states, 0.0
    t0 = time.monotonic()
    os.makedirs(base, exist_ok=True)
    # drop stale states of other trees (disk is limited) - but never one a
    # concurrently running check may be building or using
    now = time.time()
    for name in os.listdir(base):
        p = os.path.join(base, name)
        try:
            age = now - os.stat(p).st_mtime
        except OSError:
            continue
        if name != key and age > 3 * 3600:
            shutil.rmtree(p, ignore_errors=True)
    tmp = os.path.join(base, f".{key}.{os.getpid()}")
    shutil.rmtree(tmp, ignore_errors=True)
    procs = []
    src = os.path.join(repo_path(), "src")
    for s in states:
        d = os.path.join(tmp, s)
        os.makedirs(d)
        env = dict(os.environ)
        env.update(_ENV)
        env["NUMBA_CACHE_DIR"] = d
        env.pop("PYTHONPATH", None)
        procs.append((s, subprocess.Popen([PY, "-c", _PREP, src, s], env=env, cwd=d, stdout=subprocess.PIPE, stderr=subprocess.STDOUT)))
    for s, p in procs:
        out, _ = p.communicate(timeout=600)
        if p.returncode != 0:
            shutil.rmtree(tmp, ignore_errors=True)
            raise RuntimeError(f"preparing numba cache state {s} failed:\n{out.decode('utf-8', 'replace')[-3000:]}")
        # the prep process's CWD artefacts (wisdom file) are not part of the state
        for name in os.listdir(os.path.join(tmp, s)):
            if name.endswith(".pkl"):
                os.unlink(os.path.join(tmp, s, name))
    try:
        os.rename(tmp, final)
    except OSError:
        shutil.rmtree(tmp, ignore_errors=True)  # someone else built it meanwhile
    return states, time.monotonic() - t0


def copy_numba_state(src_dir, dst_dir):
    shutil.copytree(src_dir, dst_dir)
    return dst_dir
