"""SimClock: virtual time for pyfftw's plan-cache thread.

`pyfftw.interfaces.cache.time` is replaced by an object whose time() is the
virtual now and whose sleep() parks the calling thread until the simulator
ticks.  The plan cache's background thread therefore runs exactly one loop
iteration per tick(), at a point the simulator chose, and the main thread does
not continue until that iteration has finished (the thread parked again or
exited).  No wall clock is read anywhere.
"""

import threading

THREAD_NAME = "PyFFTWCacheThread"


class SimClock:
    def __init__(self, start=1_000_000.0):
        self.now = float(start)
        self._cv = threading.Condition()
        self._gen = 0
        self._parked = set()
        self.ticks = 0
        self.virtual_elapsed = 0.0

    # what the plan-cache thread sees -------------------------------------
    def time(self):
        return self.now

    def sleep(self, dt):
        me = threading.get_ident()
        with self._cv:
            gen = self._gen
            self._parked.add(me)
            self._cv.notify_all()
            while self._gen == gen:
                self._cv.wait()
            self._parked.discard(me)

    # what the simulator calls ----------------------------------------------
    def _cache_threads(self):
        return {t.ident for t in threading.enumerate() if t.name == THREAD_NAME and t.ident is not None}

    def settle(self, timeout=300.0):
        """Wait until every live plan-cache thread is parked in sleep()."""
        with self._cv:
            waited = 0.0
            while True:
                alive = self._cache_threads()
                self._parked &= alive
                if alive <= self._parked:
                    return len(alive)
                self._cv.wait(0.005)
                waited += 0.005
                if waited > timeout:
                    raise RuntimeError("SimClock: plan-cache thread did not park")

    def tick(self, dt):
        """Advance virtual time and let every parked thread run one iteration."""
        self.settle()
        with self._cv:
            self.now += float(dt)
            self.virtual_elapsed += float(dt)
            self.ticks += 1
            self._gen += 1
            self._parked.clear()
            self._cv.notify_all()
        return self.settle()


def install(clock=None):
    import pyfftw.interfaces.cache as pc

    clock = clock or SimClock()
    pc.time = clock
    return clock
