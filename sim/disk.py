"""SimDisk: a journalled view of one directory tree, crash images, I/O faults.

Scope: paths under `root`.  Everything else passes straight through.

The real file system is the *volatile view*; every mutating operation that
goes through the Python file API (builtins.open / io.open / os.*) is appended
to a journal.  Crash images ("what survives") are synthesised from the journal,
never from what the directory looks like after the interrupted code unwound.
"""

import builtins
import errno as _errno
import io
import os
import random

from .core import HarnessError, SimCrash

_REAL = {
    "open": builtins.open,
    "os.open": os.open,
    "os.write": os.write,
    "os.close": os.close,
    "os.replace": os.replace,
    "os.rename": os.rename,
    "os.unlink": os.unlink,
    "os.remove": os.remove,
    "os.truncate": os.truncate,
    "os.ftruncate": os.ftruncate,
    "os.fsync": os.fsync,
    "os.fdatasync": os.fdatasync,
    "os.mkdir": os.mkdir,
    "os.rmdir": os.rmdir,
    "os.link": os.link,
    "os.symlink": os.symlink,
    "os.stat": os.stat,
}


class InjectIOError(Exception):
    """Raised by a hook: fail this operation with errno after `partial` bytes."""

    def __init__(self, err, partial=0):
        super().__init__(err)
        self.err = err
        self.partial = partial


class SimFile(io.BufferedIOBase):
    """Binary file object that forwards to a real file and journals mutations."""

    def __init__(self, disk, real, rel, hid, append):
        self._disk = disk
        self._real = real
        self._rel = rel
        self._hid = hid
        self._append = append
        self._epoch = disk.epoch
        self._done = False

    # -- helpers -----------------------------------------------------------
    def _live(self):
        d = self._disk
        return d.active and not d.frozen and self._epoch == d.epoch

    def _offset(self):
        if self._append:
            self._real.flush()
            return os.fstat(self._real.fileno()).st_size
        return self._real.tell()

    # -- mutating ----------------------------------------------------------
    def write(self, b):
        data = bytes(memoryview(b))
        if not self._live():
            return self._real.write(data)
        d = self._disk
        off = self._offset()
        try:
            d._hook("WRITE", self._rel, {"off": off, "data": data, "hid": self._hid})
        except InjectIOError as e:
            if e.partial:
                part = data[: e.partial]
                self._real.write(part)
                d.journal.append(("WRITE", self._rel, off, part, self._hid))
            raise OSError(e.err, os.strerror(e.err)) from None
        n = self._real.write(data)
        d.journal.append(("WRITE", self._rel, off, data, self._hid))
        return n

    def truncate(self, size=None):
        if size is None:
            size = self._real.tell()
        if self._live():
            try:
                self._disk._hook("TRUNC", self._rel, {"size": size, "hid": self._hid})
            except InjectIOError as e:
                raise OSError(e.err, os.strerror(e.err)) from None
            self._disk.journal.append(("TRUNC", self._rel, size, self._hid))
        return self._real.truncate(size)

    def flush(self):
        if self._real.closed:
            return
        if self._live():
            try:
                self._disk._hook("FLUSH", self._rel, {"hid": self._hid})
            except InjectIOError as e:
                raise OSError(e.err, os.strerror(e.err)) from None
            self._disk.journal.append(("FLUSH", self._rel, self._hid))
        self._real.flush()

    def seek(self, off, whence=0):
        if self._live() and self._real.writable():
            # a BufferedRandom flushes its write buffer on seek: a marker, not
            # a hook point (no data moves)
            self._disk.journal.append(("FLUSH", self._rel, self._hid))
        return self._real.seek(off, whence)

    def close(self):
        if self._done:
            return
        self._done = True
        d = self._disk
        try:
            if self._live():
                d.live.pop(self._hid, None)
                try:
                    d._hook("CLOSE", self._rel, {"hid": self._hid})
                except InjectIOError as e:
                    raise OSError(e.err, os.strerror(e.err)) from None
                d.journal.append(("CLOSE", self._rel, self._hid))
        finally:
            try:
                fd = self._real.fileno()
                d.fdmap.pop(fd, None)
            except Exception:
                pass
            self._real.close()

    def __del__(self):
        # garbage collection of a handle nobody closed: no hook point (a crash
        # or fault is never injected from a finaliser), just the marker
        if self._done:
            return
        self._done = True
        try:
            d = self._disk
            if self._live():
                d.live.pop(self._hid, None)
                d.journal.append(("CLOSE", self._rel, self._hid))
            try:
                d.fdmap.pop(self._real.fileno(), None)
            except Exception:
                pass
            self._real.close()
        except BaseException:
            pass

    # -- forwarding --------------------------------------------------------
    def read(self, n=-1):
        return self._real.read(n)

    def read1(self, n=-1):
        return self._real.read1(n) if hasattr(self._real, "read1") else self._real.read(n)

    def readinto(self, b):
        return self._real.readinto(b)

    def readinto1(self, b):
        return self._real.readinto(b)

    def readline(self, n=-1):
        return self._real.readline(n)

    def peek(self, n=0):
        return self._real.peek(n)

    def tell(self):
        return self._real.tell()

    def readable(self):
        return self._real.readable()

    def writable(self):
        return self._real.writable()

    def seekable(self):
        return self._real.seekable()

    def fileno(self):
        return self._real.fileno()

    def isatty(self):
        return False

    @property
    def closed(self):
        return self._real.closed

    @property
    def name(self):
        return self._real.name

    @property
    def mode(self):
        return self._real.mode

    @property
    def raw(self):
        # tempfile pokes at .raw to set a name; hand out the real one (reads of
        # attributes only - writes through it would bypass the journal and be
        # caught by the completeness assertion)
        try:
            return self._real.raw
        except AttributeError:
            raise AttributeError("raw") from None


_WRITE_FLAGS = os.O_WRONLY | os.O_RDWR | os.O_CREAT | os.O_TRUNC | os.O_APPEND


class SimDisk:
    def __init__(self, root):
        self.root = os.path.realpath(root)
        self.active = False
        self.frozen = False
        self.epoch = 0
        self.journal = []
        self.base_files = {}
        self.base_dirs = set()
        self.fdmap = {}  # real fd -> (rel, append)
        self.live = {}  # hid -> SimFile
        self.next_hid = 0
        self.hook = None  # hook(disk, index, kind, rel, info); may raise
        self.nhook = 0
        self.pending = None  # the operation a SimCrash interrupted
        self.counts = {}
        self.hook_reads = True

    # ------------------------------------------------------------------ scope
    def _rel(self, path, dir_fd=None):
        try:
            p = os.fspath(path)
        except TypeError:
            return None
        if isinstance(p, bytes):
            p = os.fsdecode(p)
        if dir_fd is not None and not os.path.isabs(p):
            try:
                p = os.path.join(os.readlink(f"/proc/self/fd/{dir_fd}"), p)
            except OSError:
                return None
        p = os.path.abspath(p)
        if p == self.root:
            return ""
        if p.startswith(self.root + "/"):
            return p[len(self.root) + 1 :]
        return None

    def _abs(self, rel):
        return os.path.join(self.root, rel) if rel else self.root

    def _on(self):
        return self.active and not self.frozen

    def _hook(self, kind, rel, info=None):
        idx = self.nhook
        self.nhook += 1
        self.counts[kind] = self.counts.get(kind, 0) + 1
        if self.hook is not None:
            try:
                self.hook(self, idx, kind, rel, info or {})
            except SimCrash:
                self.pending = (kind, rel, info or {})
                self.frozen = True
                raise

    # --------------------------------------------------------------- wrappers
    def _w_open(self, file, mode="r", buffering=-1, encoding=None, errors=None,
                newline=None, closefd=True, opener=None):
        ro = _REAL["open"]
        if not self._on():
            return ro(file, mode, buffering, encoding, errors, newline, closefd, opener)
        if opener is not None:
            return self._open_with_opener(file, mode, buffering, encoding, errors, newline, closefd, opener)
        append = False
        if isinstance(file, int):
            ent = self.fdmap.get(file)
            if ent is None:
                return ro(file, mode, buffering, encoding, errors, newline, closefd, opener)
            rel, append = ent
            from_fd = True
        else:
            rel = self._rel(file)
            from_fd = False
            if rel is None:
                return ro(file, mode, buffering, encoding, errors, newline, closefd, opener)
        writing = any(c in mode for c in "wax+")
        if not writing:
            if self.hook_reads:
                self._hook("OPENR", rel)
            return ro(file, mode, buffering, encoding, errors, newline, closefd, opener)
        binary = "b" in mode
        bmode = mode.replace("t", "")
        if not binary:
            bmode += "b"
        if not from_fd:
            existed = os.path.lexists(self._abs(rel))
            trunc = "w" in mode
            append = "a" in mode
            if "x" in mode and existed:
                raise FileExistsError(_errno.EEXIST, os.strerror(_errno.EEXIST), os.fspath(file))
            if (not existed and ("w" in mode or "a" in mode or "x" in mode)) or (existed and trunc):
                try:
                    self._hook("CREATE", rel, {"trunc": trunc})
                except InjectIOError as e:
                    raise OSError(e.err, os.strerror(e.err), os.fspath(file)) from None
                real = ro(file, bmode, buffering if binary else -1)
                self.journal.append(("CREATE", rel, trunc))
            else:
                real = ro(file, bmode, buffering if binary else -1)
        else:
            real = ro(file, bmode, buffering if binary else -1, closefd=closefd)
        hid = self.next_hid
        self.next_hid += 1
        sf = SimFile(self, real, rel, hid, append)
        self.live[hid] = sf
        try:
            self.fdmap[real.fileno()] = (rel, append)
        except Exception:
            pass
        if binary:
            return sf
        return io.TextIOWrapper(sf, encoding=encoding, errors=errors, newline=newline)

    def _open_with_opener(self, file, mode, buffering, encoding, errors, newline, closefd, opener):
        """open(..., opener=...) as tempfile.NamedTemporaryFile uses it: the
        opener does the os.open (journalled by the os.open wrapper if it goes
        through os), the file object is wrapped like any other."""
        ro = _REAL["open"]
        rel = None if isinstance(file, int) else self._rel(file)
        writing = any(c in mode for c in "wax+")
        if rel is None or not writing:
            return ro(file, mode, buffering, encoding, errors, newline, closefd, opener)
        binary = "b" in mode
        bmode = mode.replace("t", "") + ("" if binary else "b")
        existed = os.path.lexists(self._abs(rel))
        n0 = len(self.journal)
        real = ro(file, bmode, buffering if binary else -1, opener=opener)
        ent = None
        try:
            ent = self.fdmap.get(real.fileno())
        except Exception:
            pass
        if ent is not None:
            # the opener went through os.open: that wrapper knows which file the
            # descriptor really belongs to (tempfile passes the *directory* as
            # the name and lets its opener pick the file)
            rel = ent[0]
        elif not any(op[0] == "CREATE" and op[1] == rel for op in self.journal[n0:]):
            if not existed or "w" in mode:
                self.journal.append(("CREATE", rel, existed and "w" in mode))
        hid = self.next_hid
        self.next_hid += 1
        sf = SimFile(self, real, rel, hid, "a" in mode)
        self.live[hid] = sf
        try:
            self.fdmap[real.fileno()] = (rel, "a" in mode)
        except Exception:
            pass
        if binary:
            return sf
        return io.TextIOWrapper(sf, encoding=encoding, errors=errors, newline=newline)

    def _w_os_open(self, path, flags, mode=0o777, *, dir_fd=None):
        r = _REAL["os.open"]
        rel = self._rel(path, dir_fd) if self._on() else None
        if rel is None or not (flags & _WRITE_FLAGS):
            if rel is not None and self.hook_reads and not (flags & getattr(os, "O_DIRECTORY", 0)):
                self._hook("OPENR", rel)
            return r(path, flags, mode, dir_fd=dir_fd)
        existed = os.path.lexists(self._abs(rel))
        creating = bool(flags & os.O_CREAT) and not existed
        trunc = bool(flags & os.O_TRUNC) and existed
        if creating or trunc:
            try:
                self._hook("CREATE", rel, {"trunc": trunc})
            except InjectIOError as e:
                raise OSError(e.err, os.strerror(e.err), os.fspath(path)) from None
        fd = r(path, flags, mode, dir_fd=dir_fd)
        if creating or trunc:
            self.journal.append(("CREATE", rel, trunc))
        self.fdmap[fd] = (rel, bool(flags & os.O_APPEND))
        return fd

    def _w_os_write(self, fd, data):
        ent = self.fdmap.get(fd) if self._on() else None
        if ent is None:
            return _REAL["os.write"](fd, data)
        rel, append = ent
        data = bytes(memoryview(data))
        if append:
            off = os.fstat(fd).st_size
        else:
            off = os.lseek(fd, 0, os.SEEK_CUR)
        try:
            self._hook("WRITE", rel, {"off": off, "data": data, "hid": -fd - 1})
        except InjectIOError as e:
            if e.partial:
                n = _REAL["os.write"](fd, data[: e.partial])
                self.journal.append(("WRITE", rel, off, data[:n], -fd - 1))
            raise OSError(e.err, os.strerror(e.err)) from None
        n = _REAL["os.write"](fd, data)
        self.journal.append(("WRITE", rel, off, data[:n], -fd - 1))
        self.journal.append(("FLUSH", rel, -fd - 1))  # os.write is unbuffered
        return n

    def _w_os_close(self, fd):
        ent = self.fdmap.pop(fd, None) if self._on() else None
        if ent is not None:
            self.journal.append(("CLOSE", ent[0], -fd - 1))
        return _REAL["os.close"](fd)

    def _w_rename_like(self, name):
        real = _REAL[name]

        def w(src, dst, *, src_dir_fd=None, dst_dir_fd=None):
            if not self._on():
                return real(src, dst, src_dir_fd=src_dir_fd, dst_dir_fd=dst_dir_fd)
            rs = self._rel(src, src_dir_fd)
            rd = self._rel(dst, dst_dir_fd)
            if rs is None and rd is None:
                return real(src, dst, src_dir_fd=src_dir_fd, dst_dir_fd=dst_dir_fd)
            if rs is None or rd is None:
                raise HarnessError(f"UNMODELLED-IO: rename across the simulated disk boundary {src!r} -> {dst!r}")
            try:
                self._hook("RENAME", rd, {"src": rs})
            except InjectIOError as e:
                raise OSError(e.err, os.strerror(e.err)) from None
            out = real(src, dst, src_dir_fd=src_dir_fd, dst_dir_fd=dst_dir_fd)
            self.journal.append(("RENAME", rs, rd))
            return out

        return w

    def _w_unlink_like(self, name):
        real = _REAL[name]

        def w(path, *, dir_fd=None):
            rel = self._rel(path, dir_fd) if self._on() else None
            if rel is None:
                return real(path, dir_fd=dir_fd)
            if not os.path.lexists(self._abs(rel)):
                return real(path, dir_fd=dir_fd)  # raises the right error
            try:
                self._hook("UNLINK", rel)
            except InjectIOError as e:
                raise OSError(e.err, os.strerror(e.err)) from None
            out = real(path, dir_fd=dir_fd)
            self.journal.append(("UNLINK", rel))
            return out

        return w

    def _w_truncate(self, path, length):
        if isinstance(path, int):
            return self._w_ftruncate(path, length)
        rel = self._rel(path) if self._on() else None
        if rel is None:
            return _REAL["os.truncate"](path, length)
        try:
            self._hook("TRUNC", rel, {"size": length})
        except InjectIOError as e:
            raise OSError(e.err, os.strerror(e.err)) from None
        out = _REAL["os.truncate"](path, length)
        self.journal.append(("TRUNC", rel, length, None))
        return out

    def _w_ftruncate(self, fd, length):
        ent = self.fdmap.get(fd) if self._on() else None
        if ent is None:
            return _REAL["os.ftruncate"](fd, length)
        try:
            self._hook("TRUNC", ent[0], {"size": length})
        except InjectIOError as e:
            raise OSError(e.err, os.strerror(e.err)) from None
        out = _REAL["os.ftruncate"](fd, length)
        self.journal.append(("TRUNC", ent[0], length, None))
        return out

    def _w_fsync_like(self, name):
        real = _REAL[name]

        def w(fd):
            if hasattr(fd, "fileno"):
                fd = fd.fileno()
            ent = self.fdmap.get(fd) if self._on() else None
            if ent is not None:
                try:
                    self._hook("FSYNC", ent[0])
                except InjectIOError as e:
                    raise OSError(e.err, os.strerror(e.err)) from None
                for sf in list(self.live.values()):
                    try:
                        if sf._real.fileno() == fd:
                            sf._real.flush()
                    except Exception:
                        pass
                self.journal.append(("FSYNC", ent[0]))
            return real(fd)

        return w

    def _w_mkdir(self, path, mode=0o777, *, dir_fd=None):
        rel = self._rel(path, dir_fd) if self._on() else None
        out = _REAL["os.mkdir"](path, mode, dir_fd=dir_fd)
        if rel is not None:
            self.journal.append(("MKDIR", rel))
        return out

    def _w_rmdir(self, path, *, dir_fd=None):
        rel = self._rel(path, dir_fd) if self._on() else None
        out = _REAL["os.rmdir"](path, dir_fd=dir_fd)
        if rel is not None:
            self.journal.append(("RMDIR", rel))
        return out

    def _w_stat(self, path, *, dir_fd=None, follow_symlinks=True):
        # existence checks (Path.exists) are observation points: another
        # process may run between the check and the open that follows it
        if self.hook_reads and self.hook is not None and self._on() and not isinstance(path, int):
            rel = self._rel(path, dir_fd)
            if rel:
                try:
                    self._hook("STAT", rel)
                except InjectIOError as e:
                    raise OSError(e.err, os.strerror(e.err)) from None
        return _REAL["os.stat"](path, dir_fd=dir_fd, follow_symlinks=follow_symlinks)

    def _w_link(self, src, dst, *, src_dir_fd=None, dst_dir_fd=None, follow_symlinks=True):
        real = _REAL["os.link"]
        if not self._on():
            return real(src, dst, src_dir_fd=src_dir_fd, dst_dir_fd=dst_dir_fd, follow_symlinks=follow_symlinks)
        rs, rd = self._rel(src, src_dir_fd), self._rel(dst, dst_dir_fd)
        if rs is None and rd is None:
            return real(src, dst, src_dir_fd=src_dir_fd, dst_dir_fd=dst_dir_fd, follow_symlinks=follow_symlinks)
        if rs is None or rd is None:
            raise HarnessError("UNMODELLED-IO: hard link across the simulated disk boundary")
        try:
            self._hook("RENAME", rd, {"src": rs, "link": True})
        except InjectIOError as e:
            raise OSError(e.err, os.strerror(e.err)) from None
        out = real(src, dst, src_dir_fd=src_dir_fd, dst_dir_fd=dst_dir_fd, follow_symlinks=follow_symlinks)
        self.flush_live()
        self.journal.append(("LINK", rs, rd))
        return out

    def _w_unmodelled(self, name):
        real = _REAL[name]

        def w(*a, **k):
            if self._on():
                for x in a[:2]:
                    if self._rel(x) is not None:
                        raise HarnessError(f"UNMODELLED-IO: {name} inside the simulated disk")
            return real(*a, **k)

        return w

    # ---------------------------------------------------------------- install
    def install(self):
        builtins.open = self._w_open
        io.open = self._w_open
        os.open = self._w_os_open
        os.write = self._w_os_write
        os.close = self._w_os_close
        os.replace = self._w_rename_like("os.replace")
        os.rename = self._w_rename_like("os.rename")
        os.unlink = self._w_unlink_like("os.unlink")
        os.remove = self._w_unlink_like("os.remove")
        os.truncate = self._w_truncate
        os.ftruncate = self._w_ftruncate
        os.fsync = self._w_fsync_like("os.fsync")
        os.fdatasync = self._w_fsync_like("os.fdatasync")
        os.mkdir = self._w_mkdir
        os.rmdir = self._w_rmdir
        os.stat = self._w_stat
        os.link = self._w_link
        os.symlink = self._w_unmodelled("os.symlink")
        self.active = True
        self.snapshot_baseline()

    def uninstall(self):
        self.active = False
        builtins.open = _REAL["open"]
        io.open = _REAL["open"]
        for k, v in _REAL.items():
            if k.startswith("os."):
                setattr(os, k[3:], v)

    # ------------------------------------------------------------- real state
    def read_real(self):
        files, dirs = {}, set()
        for dp, dn, fn in os.walk(self.root):
            r = os.path.relpath(dp, self.root)
            r = "" if r == "." else r
            for d in dn:
                dirs.add(os.path.join(r, d) if r else d)
            for f in fn:
                rel = os.path.join(r, f) if r else f
                with _REAL["open"](os.path.join(dp, f), "rb") as fh:
                    files[rel] = fh.read()
        return files, dirs

    def snapshot_baseline(self):
        self.base_files, self.base_dirs = self.read_real()
        self.journal = []

    def flush_live(self):
        for sf in list(self.live.values()):
            try:
                if not sf._real.closed:
                    sf._real.flush()
            except Exception:
                pass

    def verify(self):
        """Journal-completeness assertion: journal replay == real directory."""
        self.flush_live()
        files, dirs = materialize(self.base_files, self.base_dirs, self.journal)
        rfiles, rdirs = self.read_real()
        if files != rfiles or dirs != rdirs:
            diff = []
            for k in sorted(set(files) | set(rfiles)):
                a, b = files.get(k), rfiles.get(k)
                if a != b:
                    diff.append((k, None if a is None else len(a), None if b is None else len(b)))
            raise HarnessError(f"UNMODELLED-IO: journal replay differs from the real directory: files {diff[:5]} dirs {sorted(dirs ^ rdirs)[:5]}")

    def reset_to_image(self, files, dirs):
        """Replace the volatile directory by a durable image; new epoch."""
        self.frozen = True
        for dp, dn, fn in os.walk(self.root, topdown=False):
            for f in fn:
                _REAL["os.unlink"](os.path.join(dp, f))
            for d in dn:
                _REAL["os.rmdir"](os.path.join(dp, d))
        for d in sorted(dirs):
            os.makedirs(os.path.join(self.root, d), exist_ok=True)
        for rel, data in files.items():
            p = os.path.join(self.root, rel)
            os.makedirs(os.path.dirname(p), exist_ok=True)
            with _REAL["open"](p, "wb") as fh:
                fh.write(bytes(data))
        self.epoch += 1
        for sf in list(self.live.values()):
            try:
                sf._done = True
                sf._real.close()
            except Exception:
                pass
        self.fdmap.clear()
        self.live.clear()
        self.pending = None
        self.base_files = {k: bytes(v) for k, v in files.items()}
        self.base_dirs = set(dirs)
        self.journal = []
        self.frozen = False


# ----------------------------------------------------------------------------
# journal interpretation


def _apply(files, dirs, op):
    k = op[0]
    if k == "CREATE":
        _, rel, trunc = op
        if trunc or rel not in files:
            files[rel] = bytearray()
    elif k == "WRITE":
        _, rel, off, data, _hid = op
        buf = files.setdefault(rel, bytearray())
        if len(buf) < off:
            buf.extend(b"\0" * (off - len(buf)))
        buf[off : off + len(data)] = data
    elif k == "TRUNC":
        rel, size = op[1], op[2]
        buf = files.setdefault(rel, bytearray())
        if len(buf) > size:
            del buf[size:]
        else:
            buf.extend(b"\0" * (size - len(buf)))
    elif k == "RENAME":
        _, rs, rd = op
        if rs in files:
            files[rd] = files.pop(rs)
        elif rs in dirs:
            dirs.discard(rs)
            dirs.add(rd)
            for f in [f for f in files if f.startswith(rs + "/")]:
                files[rd + f[len(rs):]] = files.pop(f)
    elif k == "LINK":
        # a second name for the same bytes (later writes through one name only
        # are not tracked to the other: links of finished files is what occurs)
        _, rs, rd = op
        if rs in files:
            files[rd] = bytearray(files[rs])
    elif k == "UNLINK":
        files.pop(op[1], None)
    elif k == "MKDIR":
        dirs.add(op[1])
    elif k == "RMDIR":
        dirs.discard(op[1])
    # FLUSH / FSYNC / CLOSE: markers only


def materialize(base_files, base_dirs, ops):
    files = {k: bytearray(v) for k, v in base_files.items()}
    dirs = set(base_dirs)
    for op in ops:
        _apply(files, dirs, op)
    return {k: bytes(v) for k, v in files.items()}, dirs


def unflushed_writes(ops):
    """Indices of WRITE ops not followed by a FLUSH/CLOSE of the same handle."""
    last_marker = {}
    writes = {}
    for i, op in enumerate(ops):
        if op[0] == "WRITE":
            writes.setdefault(op[4], []).append(i)
        elif op[0] in ("FLUSH", "CLOSE"):
            hid = op[2]
            writes[hid] = []
            last_marker[hid] = i
    return writes  # hid -> list of indices (in order)


def unsynced_writes(ops):
    """Indices of WRITE ops with no later FSYNC of the same file."""
    out = {}
    for i, op in enumerate(ops):
        if op[0] == "WRITE":
            out.setdefault(op[1], []).append(i)
        elif op[0] == "FSYNC":
            out[op[1]] = []
        elif op[0] == "RENAME":
            if op[1] in out:
                out[op[2]] = out.pop(op[1])
    return out


def crash_image(base_files, base_dirs, ops, pending, spec):
    """Durable image after a crash.

    ops      journal prefix [0, p) (everything that completed before the crash)
    pending  (kind, rel, info) the operation the crash interrupted, or None
    spec     explicit fault placement:
             model        'kill' | 'power'
             tear         bytes of a pending WRITE that reached the file
             lose_suffix  kill: how many trailing un-flushed writes per open
                          handle are lost (user-space buffer)
             drop_seed, drop_p   power: which un-synced writes are missing
             rename_mode  power: fate of the last RENAME:
                          ok | zero_len | zero_fill | lost
    Returns (files, dirs, info)
    """
    ops = list(ops)
    info = {"model": spec.get("model", "kill")}
    drop = set()
    tear = int(spec.get("tear", 0))
    lose = int(spec.get("lose_suffix", 0))
    pend_write = None
    if pending is not None and pending[0] == "WRITE":
        pinfo = pending[2]
        tear = max(0, min(tear, len(pinfo["data"])))
        if tear:
            pend_write = ("WRITE", pending[1], pinfo["off"], pinfo["data"][:tear], pinfo["hid"])
    if lose > 0:
        uw = unflushed_writes(ops)
        n = 0
        for hid, idxs in uw.items():
            for i in idxs[-lose:]:
                drop.add(i)
                n += 1
        if n:
            pend_write = None  # the torn write sat behind them in the same buffer
        info["lost_suffix_writes"] = n
    if spec.get("model") == "power":
        rng = random.Random(int(spec.get("drop_seed", 0)))
        p = float(spec.get("drop_p", 0.5))
        us = unsynced_writes(ops)
        n = 0
        for rel in sorted(us):
            for i in us[rel]:
                if rng.random() < p:
                    drop.add(i)
                    n += 1
        info["dropped_unsynced_writes"] = n
    kept = [op for i, op in enumerate(ops) if i not in drop]
    if pend_write is not None:
        kept.append(pend_write)
        info["torn_bytes"] = tear
    rmode = spec.get("rename_mode", "ok") if spec.get("model") == "power" else "ok"
    if rmode != "ok":
        last = None
        for i, op in enumerate(kept):
            if op[0] == "RENAME":
                last = i
        if last is None:
            rmode = "ok"
        else:
            rs, rd = kept[last][1], kept[last][2]
            synced = any(op[0] == "FSYNC" and op[1] == rs for op in kept[:last])
            if synced and rmode in ("zero_len", "zero_fill"):
                rmode = "ok"  # the data was durable before the rename
            elif rmode == "lost":
                # the rename (and, to stay consistent, everything after it) did not persist
                kept = kept[:last]
            info["rename_mode"] = rmode
    files, dirs = materialize(base_files, base_dirs, kept)
    if rmode in ("zero_len", "zero_fill"):
        if rd in files:
            files[rd] = b"" if rmode == "zero_len" else b"\0" * len(files[rd])
    return files, dirs, info
