"""Instrumented locks for pyfftw's plan cache, so that the simulator can choose
the one schedule a fake clock alone cannot reach: *fork while the plan-cache
thread is inside its critical section*.

pyfftw/interfaces/cache.py creates its locks through the module attribute
`_threading`.  That attribute is replaced by a proxy whose Lock() returns a
SimLock.  A SimLock behaves like threading.Lock, and additionally

* remembers which thread owns it,
* lets the simulator park the plan-cache thread right after it acquired the
  cull lock (hold_next_cull()), i.e. inside the critical section, until
  release_cull() - meanwhile the main thread goes on and may fork,
* detects deterministically (no timeout) when a thread tries to take a lock
  whose owner does not exist in this process: that lock was inherited through
  fork() in the locked state and nobody will ever release it.  In a real run
  the caller would block forever; here ForkedLockHeld is raised instead.
"""

import threading

THREAD_NAME = "PyFFTWCacheThread"


class ForkedLockHeld(RuntimeError):
    """A lock inherited through fork() is held by a thread that does not exist
    in this process: acquiring it would block forever."""


class _Ctl:
    def __init__(self):
        self.hold = False
        self.inside = threading.Event()
        self.resume = threading.Event()
        self.holds = 0
        self.detected = 0


ctl = _Ctl()


class SimLock:
    def __init__(self):
        self._real = threading.Lock()
        self.owner = None

    def acquire(self, blocking=True, timeout=-1):
        me = threading.get_ident()
        owner = self.owner
        if owner is not None and owner != me and self._real.locked():
            alive = {t.ident for t in threading.enumerate()}
            if owner not in alive:
                ctl.detected += 1
                raise ForkedLockHeld("pyfftw plan-cache lock was held by the cache thread when this process was forked; "
                                     "that thread does not exist here, the lock can never be released (a real run blocks forever)")
        ok = self._real.acquire(blocking, timeout)
        if ok:
            self.owner = me
            if ctl.hold and threading.current_thread().name == THREAD_NAME:
                ctl.hold = False
                ctl.holds += 1
                ctl.inside.set()
                ctl.resume.wait()
                ctl.resume.clear()
        return ok

    def release(self):
        self.owner = None
        self._real.release()

    def locked(self):
        return self._real.locked()

    __enter__ = acquire

    def __exit__(self, *a):
        self.release()


class _ThreadingProxy:
    Lock = SimLock

    def __getattr__(self, name):
        return getattr(threading, name)


def install():
    import pyfftw.interfaces.cache as pc

    pc._threading = _ThreadingProxy()


def hold_next_cull(clock, dt=61.0, timeout=120.0):
    """Advance virtual time past the keep-alive so the plan-cache thread starts
    a cull, and park it inside the cull lock.  Returns True if it is parked."""
    clock.settle()
    if not clock._cache_threads():
        return False
    ctl.inside.clear()
    ctl.resume.clear()
    ctl.hold = True
    with clock._cv:
        clock.now += float(dt)
        clock.virtual_elapsed += float(dt)
        clock.ticks += 1
        clock._gen += 1
        clock._parked.clear()
        clock._cv.notify_all()
    if ctl.inside.wait(timeout):
        return True
    ctl.hold = False  # no cull happened (nothing old enough): let the thread settle again
    clock.settle()
    return False


def release_cull(clock):
    ctl.resume.set()
    clock.settle()
