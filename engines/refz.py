"""Reference zygote: a process forked from a (solver-cold) lane that warms the
serial numba kernel for itself once and then answers every request in a
*fresh fork of itself* - so each reference computation starts from a pristine
state (no FFT manager, no plan cache, no history) yet costs milliseconds."""

import os
import shutil
import traceback

import numpy as np

from sim.harness import _recv, _recv_deadline, _send


class RefZygote:
    def __init__(self, ctx, fn, name="ref"):
        q_r, q_w = os.pipe()
        a_r, a_w = os.pipe()
        pid = os.fork()
        if pid == 0:
            os.close(q_w)
            os.close(a_r)
            try:
                self._serve(ctx, fn, name, q_r, a_w)
            finally:
                os._exit(0)
        os.close(q_r)
        os.close(a_w)
        self.pid, self.q_w, self.a_r = pid, q_w, a_r
        msg = _recv_deadline(a_r, 600, "the reference zygote at start-up")
        if msg != "ready":
            raise RuntimeError("reference zygote failed: " + str(msg))

    def ask(self, req):
        _send(self.q_w, req)
        return _recv_deadline(self.a_r, 900, "the reference zygote")

    @staticmethod
    def _serve(ctx, fn, name, q_r, a_w):
        import numba

        try:
            refdir = os.path.join(ctx["lane_dir"], name)
            os.makedirs(refdir, exist_ok=True)
            nb = os.path.join(ctx["lane_dir"], name + "-numba")
            shutil.copytree(ctx["numba_states"]["serial_first"], nb)
            numba.config.CACHE_DIR = nb
            from bldfm import config as bcfg
            import bldfm.solver as bs

            bcfg.NUM_THREADS = 1
            n = 4
            one = np.ones(n, dtype=np.complex128)
            zero = np.zeros(n, dtype=np.complex128)
            z = np.linspace(0.1, 2.0, 4)
            prof = tuple(np.ones(4) for _ in range(5))
            L = np.linspace(0.1, 1.0, n)
            for lv in (np.array([1, 3]), [1, 3]):
                bs.ivp_solver((one, zero), prof, z, lv, L, L)
            _send(a_w, "ready")
        except BaseException:
            _send(a_w, traceback.format_exc())
            return
        k = 0
        while True:
            try:
                req = _recv(q_r)
            except EOFError:
                return
            if req is None:
                return
            k += 1
            r, w = os.pipe()
            pid = os.fork()
            if pid == 0:
                try:
                    os.close(r)
                    d = os.path.join(refdir, f"q{k}")
                    os.makedirs(d, exist_ok=True)
                    os.chdir(d)
                    _send(w, fn(req))
                except BaseException:
                    try:
                        _send(w, {"error": traceback.format_exc()})
                    except BaseException:
                        pass
                finally:
                    os._exit(0)
            os.close(w)
            try:
                out = _recv(r)
            except EOFError:
                out = {"error": "reference process died"}
            os.close(r)
            os.waitpid(pid, 0)
            shutil.rmtree(os.path.join(refdir, f"q{k}"), ignore_errors=True)
            _send(a_w, out)
