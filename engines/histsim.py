"""E3 histsim - C12: a solve is a pure function of its arguments.

Histories over an alphabet of solves interleaved with thread-count changes,
FFT-manager resets, plan-cache clears and culls (virtual time), process exits
(atexit -> wisdom save) and wisdom-file faults, executed in real processes
forked from a solver-cold zygote, each compared with the same solve in a fresh
state.
"""

import copy
import errno
import logging
import os
import pickle
import shutil
import traceback

import numpy as np

from sim import clock as simclock
from sim.core import (EventLog, HarnessError, SimCrash, Violation, arr_digest,
                      canon, rel_err, seed_tempfile, sha, stream)
from sim.disk import InjectIOError, SimDisk, crash_image
from sim.harness import _recv, _send
from . import specs as S
from .refz import RefZygote

PROP = "C12"
NATIVE_NONDETERMINISM = True  # OpenMP/FFTW internals are outside the simulator
WISDOM = "fftw_wisdom.pkl"
_g = {}


class AtexitRecorder:
    """Stands in for the `atexit` module inside bldfm.fft_manager: the handlers
    BLDFM registers (and only those) are run, LIFO, by the simulated exit."""

    def __init__(self):
        self.handlers = []

    def register(self, fn, *a, **k):
        self.handlers.append((fn, a, k))
        return fn

    def unregister(self, fn):
        self.handlers = [h for h in self.handlers if h[0] != fn]


# ----------------------------------------------------------------------------
# generation


def gen_alphabet(rng):
    alpha = []

    def add(s):
        s = copy.deepcopy(s)
        if not s["footprint"]:
            # dispersion mode truncates the source spectrum symmetrically: keep
            # the grid parity compatible with the even mode counts (C11's subject)
            s["nx"] += s["nx"] % 2
            s["ny"] += s["ny"] % 2
        for t in alpha:
            if canon(t) == canon(s):
                return
        alpha.append(s)

    base = S.base_spec(rng)
    base["precision"] = "double"
    base["footprint"] = rng.random() < 0.7
    if rng.random() < 0.4:
        base["repr"] = "np"  # numpy scalars / arrays for the small arguments
    add(base)
    add(dict(alpha[0], precision="single"))  # the single-precision twin
    kinds = ["srf_flx.shape", "modes", "footprint", "analytic", "halo.other", "halo.none", "levels.list", "levels.reorder",
             "levels.scalar", "domain", "z", "profiles.u", "meas_pt", "srf_bg_conc", "precision", "srf_flx.values",
             "repr.np", "repr.int", "levels.asarray", "profiles.elem", "modes", "precision", "footprint", "levels.samelen", "srf_flx.transpose"]
    # always one neighbour with identical array shapes but different values: a
    # memo or buffer keyed by shapes alone collides on it
    for _ in range(6):
        s = S.neighbour(alpha[0], rng.choice(["domain", "z", "profiles.u", "profiles.Kz", "meas_pt", "halo.subcell", "srf_bg_conc", "profiles.Kx"]), rng)
        if s is not None:
            add(s)
            break
    n = rng.choice([2, 3, 4])
    tries = 0
    while len(alpha) < 3 + n and tries < 30:
        tries += 1
        p = alpha[rng.randrange(len(alpha))]
        s = S.neighbour(p, rng.choice(kinds), rng)
        if s is not None:
            add(s)
    if rng.random() < 0.5:
        f = S.base_spec(rng)
        f["footprint"] = rng.random() < 0.6
        add(f)
    if rng.random() < 0.35:
        # a 'stiff' family: 1 m cells, many modes, high levels.  (a) analytic,
        # single precision: the highest modes decay to ~1e-41 and underflow when
        # stored as complex64 - a floating-point event numpy ignores by default,
        # so a leaked error state shows; (b) numeric, double precision, many
        # levels: the shooting amplifies last-bit differences of the kernel
        f = S.base_spec(rng)
        f.update(nx=16, ny=16, domain=[16.0, 16.0], halo=None, modes=[48, 48], nz=6, z0=0.1, zm=30.0, prof="const", U=3.0, V=1.0, K=4.8,
                 analytic=True, precision="single", levels=5, footprint=True, meas_pt=[8.0, 8.0], bg=0.0, repr=None)
        add(f)
        g = S.base_spec(rng)
        g.update(nx=24, ny=16, domain=[24.0, 16.0], halo=8.0, modes=[16, 16], nz=13, z0=0.1, zm=15.0, prof=rng.choice(["shear", "most_unstable"]), U=3.0, V=1.0,
                 analytic=False, precision="double", levels=list(range(1, 13)), footprint=True, meas_pt=[10.0, 8.0], bg=0.0, repr=None)
        add(g)
    if rng.random() < 0.3:
        # a larger dispersion solve (padded grid 32..52 per side, several levels)
        f = S.base_spec(rng)
        f.update(nx=rng.choice([16, 20, 24, 32]), ny=rng.choice([12, 16, 24]), footprint=False, precision="double", analytic=False,
                 halo=rng.choice([300.0, 500.0]), meas_pt=[200.0, 150.0])
        f["domain"] = [50.0 * f["nx"], 50.0 * f["ny"]]
        add(f)
    return alpha


# What an interrupted, an older or a foreign run can leave where the wisdom file
# is expected.  Deliberately NOT arbitrary random bytes: the file is a pickle, and
# random bytes are a pickle *program* (a seeded 164-byte string made CPython's
# unpickler try to grow its memo to 3.9e9 slots - tens of GB, minutes of zeroing;
# others could import modules or call things).  No history of runs produces that,
# and no property of BLDFM is about surviving hostile pickles.
WISDOM_KINDS = ["absent", "empty", "truncated", "zero_filled", "wrong_type", "valid_other", "directory", "tuple_of_wrong_len", "huge_strings", "truncated"]


def generate(seed, tier="quick", faults=True):
    gen = stream(seed, "gen")
    fault = stream(seed, "fault")
    alpha = gen_alphabet(gen)
    nops = gen.randrange(15, 41)
    long_run = stream(seed, "size").random() < (0.2 if tier == "thorough" else 0.03)
    if long_run:
        nops = gen.randrange(60, 121)
    ops = []
    nproc = 1
    while len(ops) < nops:
        r = gen.random()
        if r < 0.50 or not ops:
            if ops and gen.random() < 0.45:
                prev = [o["spec"] for o in ops if o["op"] == "solve"]
                i = gen.choice(prev) if prev else gen.randrange(len(alpha))
            else:
                i = gen.randrange(len(alpha))
            op = {"op": "solve", "spec": i}
            if gen.random() < 0.12:
                op["tick_inside"] = {"before_fft": gen.randrange(0, 3), "dt": gen.choice([31.0, 61.0])}
            ops.append(op)
        elif r < 0.64:
            ops.append({"op": "threads", "n": gen.choice([1, 1, 2, 3, 4, 4, 8, 5, 6, 7, 1, 2, 4, 17])})
        elif r < 0.70:
            ops.append({"op": "reset"})
        elif r < 0.75:
            ops.append({"op": "get_manager", "threads": gen.choice(["one", "config"]), "keepalive": gen.choice([30, 0.05, 5])})
        elif r < 0.79:
            ops.append({"op": "clear_cache"})
        elif r < 0.88:
            ops.append({"op": "tick", "dt": gen.choice([0.2, 16.0, 31.0, 61.0]), "n": gen.choice([1, 2, 3])})
        elif r < 0.93 and nproc < (6 if long_run else 3):
            op = {"op": "exit"}
            if faults and fault.random() < 0.4:
                op["fault"] = fault.choice([
                    {"kind": "crash", "at": fault.randrange(0, 6), "tear_frac": fault.random(), "model": fault.choice(["kill", "power"]),
                     "lose_suffix": fault.choice([0, 1]), "drop_seed": fault.randrange(1 << 30), "drop_p": 0.5, "rename_mode": "ok"},
                    {"kind": "ioerror", "errno": fault.choice(["ENOSPC", "EIO", "EACCES"]), "at": fault.randrange(0, 4), "partial_frac": fault.choice([0.0, 0.5])},
                ])
            ops.append(op)
            nproc += 1
        elif faults:
            ops.append({"op": "wisdom", "kind": fault.choice(WISDOM_KINDS), "seed": fault.randrange(1 << 30), "frac": fault.random()})
            if gen.random() < 0.7:
                ops.append({"op": gen.choice(["reset", "reset", "threads_toggle"])})
    if gen.random() < 0.3:
        # a sandwich: the same solve before and after something that touches
        # process-global state, with the thread setting restored in between
        i = gen.randrange(len(alpha))
        big = [k for k, s in enumerate(alpha) if s["nx"] * s["ny"] >= 16 * 12 and not s["footprint"]]
        if big and gen.random() < 0.7:
            i = gen.choice(big)
        j = gen.randrange(len(alpha))
        mid = gen.choice([
            [{"op": "threads", "n": gen.choice([2, 4, 8])}, {"op": "solve", "spec": j}, {"op": "threads", "n": 1}],
            [{"op": "threads", "n": 4}, {"op": "solve", "spec": i}, {"op": "threads", "n": 1}],
            [{"op": "solve", "spec": j}, {"op": "reset"}],
            [{"op": "solve", "spec": j}, {"op": "tick", "dt": 61.0, "n": 2}],
            [{"op": "solve", "spec": j}, {"op": "clear_cache"}],
        ])
        sandwich = [{"op": "threads", "n": 1}, {"op": "solve", "spec": i}] + mid + [{"op": "solve", "spec": i}]
        # keep it inside one simulated process: insert after the last exit
        last_exit = max([k for k, o in enumerate(ops) if o["op"] == "exit"] + [-1])
        pos = gen.randrange(last_exit + 1, len(ops) + 1)
        ops[pos:pos] = sandwich
    if long_run and gen.random() < 0.5:
        # a marathon over many distinct geometries in ONE process, then the first
        # ones again: bounded per-process memo/plan/buffer pools have to evict
        geo = ["domain", "srf_flx.shape", "modes", "halo.other", "halo.subcell", "srf_flx.transpose", "domain.tiny"]
        tries = 0
        while len(alpha) < 44 and tries < 400:
            tries += 1
            s2 = S.neighbour(alpha[gen.randrange(len(alpha))], gen.choice(geo), gen)
            if s2 is None:
                continue
            if not s2["footprint"]:
                s2["nx"] += s2["nx"] % 2
                s2["ny"] += s2["ny"] % 2
            if all(canon(s2) != canon(t) for t in alpha):
                alpha.append(s2)
        order = list(range(len(alpha)))
        ops = [{"op": "threads", "n": 1}] + [{"op": "solve", "spec": i} for i in order]
        for i in order[:8]:
            ops.append({"op": "solve", "spec": i})
            if gen.random() < 0.2:
                ops.append({"op": gen.choice(["reset", "clear_cache"])})
        nproc = 1
    procs = [{"chunksize": gen.choice([0, 0, 1, 3, 16])} for _ in range(nproc + 1)]
    return {"engine": "histsim", "reuse_arrays": gen.random() < 0.5, "property": PROP, "seed": seed, "tier": tier, "faults": faults, "alphabet": alpha, "ops": ops, "procs": procs,
            "numba_state": gen.choice(["serial_first", "parallel_first", "serial_first", "parallel_first", "parallel_only"] if tier == "thorough" else ["serial_first", "parallel_first"]),
            "initial_wisdom": (fault.choice(["absent", "absent", "valid_other", "empty", "zero_filled", "truncated"]) if faults else "absent")}


# ----------------------------------------------------------------------------
# lanes


def _ref_solve(spec):
    from bldfm import config as bcfg
    from bldfm.solver import steady_state_transport_solver as solve

    bcfg.NUM_THREADS = 1
    args = S.build_args(spec)
    try:
        grid, conc, flx = solve(**args, cache=None)
    except Exception as e:
        return {"exc": type(e).__name__, "msg": str(e)[:200]}
    return {"grid": [np.asarray(g) for g in grid], "conc": np.asarray(conc), "flx": np.asarray(flx)}


def lane_init(ctx):
    logging.disable(logging.CRITICAL)
    _g["clock"] = simclock.install()
    import bldfm  # noqa: F401
    import bldfm.fft_manager as fm

    rec = AtexitRecorder()
    fm.atexit = rec
    _g["atexit"] = rec
    _g["numba_states"] = ctx["numba_states"]
    _g["refz"] = RefZygote(ctx, _ref_solve)
    _g["ref_memo"] = {}


def pre_job(job, ctx):
    if job.get("kind", "run") != "run":
        return job
    refs = []
    for spec in job["record"]["alphabet"]:
        k = canon(spec)
        if k not in _g["ref_memo"]:
            if len(_g["ref_memo"]) > 400:
                _g["ref_memo"].clear()
            _g["ref_memo"][k] = _g["refz"].ask(spec)
        refs.append(_g["ref_memo"][k])
    return dict(job, refs=refs)


# ----------------------------------------------------------------------------
# one simulated process


def _wisdom_bytes(kind, seed, frac):
    import random

    rng = random.Random(seed)
    valid = pickle.dumps((b"(fftw-3.3.10 fftw_wisdom #x3c273403 #x192df114 #x4d08727c #xe98e9b9d\n)\n",
                          b"(fftw-3.3.10 fftwf_wisdom #xa84d9772 #xb710bd56 #x4a1a04b2 #x8f9ad7c8\n)\n",
                          b"(fftw-3.3.10 fftwl_wisdom #x4fe7b2a4 #x9c0d1b1e #x2b0c71a2 #x7d11e2bb\n)\n"))
    if kind == "empty":
        return b""
    if kind == "truncated":
        return valid[: max(1, int(frac * len(valid)))]
    if kind in ("zero_filled", "garbage"):
        # power loss: the size was committed, the data was not ('garbage' in
        # records written before this kind was retired maps here too)
        return b"\0" * max(1, int(frac * len(valid)) if kind == "zero_filled" else len(valid))
    if kind == "wrong_type":
        return pickle.dumps(rng.choice([{"wisdom": 1}, [1, 2, 3], "text", 42, None, (1, 2, 3), (b"a", b"b")]))
    if kind == "tuple_of_wrong_len":
        return pickle.dumps((b"x",) * rng.choice([0, 1, 2, 4]))
    if kind == "huge_strings":
        return pickle.dumps((b"(" + b"z" * 5000, b"", b"\0\0\0"))
    if kind == "valid_other":
        return valid
    raise ValueError(kind)


def set_wisdom_file(kind, seed, frac, valid_export=None):
    """Environment fault: what an earlier (interrupted / foreign) run left."""
    p = WISDOM
    if os.path.isdir(p):
        shutil.rmtree(p)
    elif os.path.lexists(p):
        os.unlink(p)
    if kind == "absent":
        return
    if kind == "directory":
        os.mkdir(p)
        return
    data = _wisdom_bytes(kind, seed, frac)
    if kind == "valid_other" and valid_export is not None:
        data = valid_export
    with open(p, "wb") as f:
        f.write(data)


def wisdom_class():
    p = WISDOM
    if os.path.isdir(p):
        return "dir"
    if not os.path.lexists(p):
        return "absent"
    try:
        with open(p, "rb") as f:
            data = f.read()
        obj = pickle.loads(data)
        if isinstance(obj, tuple) and len(obj) == 3 and all(isinstance(x, bytes) for x in obj):
            return "valid"
        return "wrongtype"
    except Exception:
        return "corrupt" if os.path.getsize(p) else "empty"


def _kernels_loaded():
    try:
        import bldfm.solver as bs

        for c in bs.ivp_solver.__closure__ or ():
            v = c.cell_contents
            if isinstance(v, dict):
                return "".join(sorted("P" if k else "S" for k in v)) or "-"
    except Exception:
        pass
    return "?"


class Segment:
    """Runs in a child forked from the solver-cold supervisor."""

    def __init__(self, rec, pidx, ops, first_k, run_dir, nb_dir):
        self.rec = rec
        self.pidx = pidx
        self.ops = ops
        self.first_k = first_k
        self.run_dir = run_dir
        self.nb_dir = nb_dir
        self.events = []
        self.results = []  # (k, spec, threads, conc, flx, grid_digest)
        self.first = {}
        self.held = []
        self.states = set()
        self.probes = {}
        self.fired = {}
        self.inputs = {}
        self.chunk_applied = False
        self.armed = None
        self.sticky = None
        self.pending_tick = None
        self.fft_calls = 0

    def probe(self, k, n=1):
        self.probes[k] = self.probes.get(k, 0) + n

    def fire(self, k):
        self.fired[k] = self.fired.get(k, 0) + 1

    def hook(self, disk, idx, kind, rel, info):
        a = self.armed
        if a is None:
            return
        if self.sticky is not None and kind in ("WRITE", "CREATE", "FLUSH", "CLOSE"):
            raise InjectIOError(self.sticky, 0)
        if a.get("done") or kind in ("OPENR", "STAT"):
            return
        k = a["count"]
        a["count"] += 1
        if k != a["at"]:
            return
        a["done"] = True
        a["hit_kind"] = kind
        if a["kind"] == "crash":
            if kind == "WRITE":
                a["tear"] = int(a.get("tear_frac", 0.5) * len(info["data"]))
            raise SimCrash()
        err = getattr(errno, a["errno"])
        part = int(a.get("partial_frac", 0.0) * len(info["data"])) if kind == "WRITE" else 0
        if a["errno"] == "ENOSPC":
            self.sticky = err
        raise InjectIOError(err, part)

    def install_fft_wrappers(self):
        import bldfm.fft_manager as fm

        seg = self
        if getattr(fm.FFTManager, "_verif_wrapped", False):
            return
        o_fft2, o_ifft2 = fm.FFTManager.fft2, fm.FFTManager.ifft2

        def before():
            t = seg.pending_tick
            if t is not None and seg.fft_calls == t["before_fft"]:
                seg.pending_tick = None
                n0 = seg.plan_count()
                _g["clock"].tick(t["dt"])
                _g["clock"].tick(t["dt"])
                if seg.plan_count() < n0:
                    seg.fire("cull_between_ffts")
                seg.fire("tick_between_ffts")
            seg.fft_calls += 1

        def fft2(self, *a, **k):
            before()
            return o_fft2(self, *a, **k)

        def ifft2(self, *a, **k):
            before()
            return o_ifft2(self, *a, **k)

        fm.FFTManager.fft2 = fft2
        fm.FFTManager.ifft2 = ifft2
        fm.FFTManager._verif_wrapped = True

    def plan_count(self):
        try:
            import pyfftw.interfaces.cache as pc

            return len(pc._fftw_cache._cache_dict) if pc._fftw_cache is not None else -1
        except Exception:
            return -2

    def get_inputs(self, i):
        if self.rec.get("reuse_arrays"):
            # a preallocating caller: one set of array objects per shape, refilled
            # in place before every call (contents are exactly those of a fresh build)
            args = S.build_args(self.rec["alphabet"][i], reuse=True)
            return args, self.input_digest(args)
        if i not in self.inputs:
            args = S.build_args(self.rec["alphabet"][i])
            dig = self.input_digest(args)
            self.inputs[i] = (args, dig)
        return self.inputs[i]

    @staticmethod
    def input_digest(args):
        parts = [arr_digest(args["srf_flx"]), arr_digest(args["z"])] + [arr_digest(p) for p in args["profiles"]]
        parts.append(canon([list(args["domain"]), args["levels"] if not isinstance(args["levels"], np.ndarray) else args["levels"].tolist(),
                            list(args["modes"]), list(args["meas_pt"]), args["srf_bg_conc"], args["halo"]]))
        return sha(parts)

    def do_solve(self, k, op):
        from bldfm import config as bcfg
        from bldfm.solver import steady_state_transport_solver as solve
        import bldfm.fft_manager as fm

        i = op["spec"]
        args, dig = self.get_inputs(i)
        threads = bcfg.NUM_THREADS
        mgr = fm._fft_manager
        pc = self.plan_count()
        self.states.add(canon([threads, mgr.num_threads if mgr is not None else None, "none" if pc < 0 else ("empty" if pc == 0 else "some"),
                               wisdom_class(), _kernels_loaded(), self.pidx, i]))
        self.fft_calls = 0
        self.pending_tick = op.get("tick_inside")
        if threads > 1 and not self.chunk_applied:
            self.chunk_applied = True
            c = self.rec["procs"][min(self.pidx, len(self.rec["procs"]) - 1)]["chunksize"]
            if c:
                import numba

                numba.set_parallel_chunksize(c)
                self.fire("parallel_chunksize")
        try:
            import numba

            invalid_threads = threads > numba.config.NUMBA_NUM_THREADS
        except Exception:
            invalid_threads = False
        try:
            grid, conc, flx = solve(**args, cache=None)
        except Exception as e:
            ref = self.refs[i]
            if "exc" in ref and ref["exc"] == type(e).__name__:
                self.events.append([k, "solve", i, threads, "same-exception"])
                return
            if invalid_threads:
                # more threads than numba's pool has: outside the property's range
                # 1..8 - the only demand is that the call behaves the same every time
                key = (i, threads)
                if key in self.first and self.first[key][0] != "exc:" + type(e).__name__:
                    raise Violation("bit-identical", "differs", f"op {k}: spec {i} with {threads} threads raised {type(e).__name__} but the same call at op {self.first[key][3]} did not",
                                    {"op": k, "field": "outcome"})
                self.first.setdefault(key, ("exc:" + type(e).__name__, None, None, k))
                self.probe("invalid_thread_count_raises")
                self.events.append([k, "solve", i, threads, "invalid-threads", type(e).__name__])
                return
            raise Violation("no-exception", "exception", f"op {k}: solve of spec {i} with {threads} thread(s) raised {type(e).__name__}: {str(e)[:200]}",
                            {"op": k, "exc": type(e).__name__, "tb": traceback.format_exc()[-1500:]})
        finally:
            self.pending_tick = None
        if self.input_digest(args) != dig:
            which = []
            fresh = S.build_args(self.rec["alphabet"][i])
            for name in ("srf_flx", "z"):
                if arr_digest(args[name]) != arr_digest(fresh[name]):
                    which.append(name)
            for j, (a, b) in enumerate(zip(args["profiles"], fresh["profiles"])):
                if arr_digest(a) != arr_digest(b):
                    which.append(f"profiles[{j}]")
            if canon(args["levels"] if not isinstance(args["levels"], np.ndarray) else args["levels"].tolist()) != canon(fresh["levels"] if not isinstance(fresh["levels"], np.ndarray) else fresh["levels"].tolist()):
                which.append("levels")
            raise Violation("inputs-unchanged", "mutated", f"op {k}: the solver modified its argument(s) {which or '?'} in place (spec {i})",
                            {"op": k, "field": ",".join(which)})
        conc = np.asarray(conc)
        flx = np.asarray(flx)
        gd = sha([arr_digest(g) for g in grid])
        key = (i, threads)
        if invalid_threads:
            if key in self.first and isinstance(self.first[key][0], str):
                raise Violation("bit-identical", "differs", f"op {k}: spec {i} with {threads} threads returned but the same call at op {self.first[key][3]} raised {self.first[key][0][4:]}",
                                {"op": k, "field": "outcome"})
            self.first.setdefault(key, (conc.copy(), flx.copy(), gd, k))
            self.events.append([k, "solve", i, threads, "invalid-threads", "returned"])
            return
        if key in self.first:
            fc, ff, fg, fk = self.first[key]
            for name, a, b in (("conc", conc, fc), ("flx", flx, ff)):
                if a.dtype != b.dtype or a.shape != b.shape or not np.array_equal(a, b, equal_nan=True):
                    e = rel_err(a, b) if a.shape == b.shape else float("inf")
                    raise Violation("bit-identical", "differs", f"op {k}: spec {i} with {threads} thread(s) differs from the same call at op {fk} in this process: {name} rel {e:.3e}",
                                    {"op": k, "field": name, "first_op": fk})
            if gd != fg:
                raise Violation("bit-identical", "differs", f"op {k}: spec {i} grid differs from the same call at op {fk}", {"op": k, "field": "grid"})
            self.probe("repeat_bit_identical")
        else:
            self.first[key] = (conc.copy(), flx.copy(), gd, k)
        # results the caller already holds must not change when a later solve runs
        for (pk, pc, pf, dc, df) in self.held:
            if arr_digest(pc) != dc or arr_digest(pf) != df:
                raise Violation("purity", "aliased-result", f"op {k}: the arrays returned by the solve at op {pk} changed while a later solve ran", {"op": k, "field": "returned-arrays"})
        self.results.append((k, i, threads, conc.copy(), flx.copy(), [np.asarray(g).copy() for g in grid]))
        # a caller may do what it likes with what it was given: overwrite it, so
        # that a solver handing out the same objects again shows at the next call
        for a in list(grid) + [conc, flx]:
            if isinstance(a, np.ndarray) and a.flags.writeable and a.dtype.kind == "f":
                a[...] = np.nan
        self.held.append((k, conc, flx, arr_digest(conc), arr_digest(flx)))
        del self.held[:-6]
        # no array digests in the event log: across processes C12 itself only
        # promises equality to rounding, so the run digest must not demand more
        self.events.append([k, "solve", i, threads, str(conc.dtype), list(conc.shape)])

    def run(self, refs, valid_export):
        import numba
        from bldfm import config as bcfg
        import bldfm.fft_manager as fm

        self.refs = refs
        os.chdir(self.run_dir)
        numba.config.CACHE_DIR = self.nb_dir
        self.disk = SimDisk(self.run_dir)
        self.disk.hook = self.hook
        self.disk.install()
        self.install_fft_wrappers()
        clock = _g["clock"]
        status = "exit-none"
        for off, op in enumerate(self.ops):
            k = self.first_k + off
            kind = op["op"]
            if kind == "solve":
                self.do_solve(k, op)
            elif kind == "threads":
                bcfg.NUM_THREADS = op["n"]
                self.events.append([k, "threads", op["n"]])
            elif kind == "threads_toggle":
                bcfg.NUM_THREADS = 4 if bcfg.NUM_THREADS == 1 else 1
                self.events.append([k, "threads", bcfg.NUM_THREADS])
            elif kind == "reset":
                fm.reset_fft_manager()
                self.fire("manager_reset")
                self.events.append([k, "reset"])
            elif kind == "get_manager":
                n = 1 if op["threads"] == "one" else bcfg.NUM_THREADS
                try:
                    fm.get_fft_manager(num_threads=n, cache_keepalive=op["keepalive"])
                except Exception as e:
                    raise Violation("no-exception", "exception", f"op {k}: get_fft_manager raised {type(e).__name__}: {e}", {"op": k, "exc": type(e).__name__})
                self.fire("get_manager")
                self.events.append([k, "get_manager", n, op["keepalive"]])
            elif kind == "clear_cache":
                if fm._fft_manager is not None:
                    fm._fft_manager.clear_cache()
                    self.fire("clear_cache")
                self.events.append([k, "clear_cache"])
            elif kind == "tick":
                n0 = self.plan_count()
                for _ in range(op["n"]):
                    clock.tick(op["dt"])
                n1 = self.plan_count()
                if n0 > 0 and n1 < n0:
                    self.fire("plan_cache_cull")
                self.fire("tick")
                # plan counts themselves depend on malloc alignment (pyfftw keys
                # plans by input alignment): only log whether the cache was empty
                self.events.append([k, "tick", op["dt"], op["n"], n0 > 0, n1 > 0])
            elif kind == "wisdom":
                self.disk.flush_live()
                set_wisdom_file(op["kind"], op["seed"], op["frac"], valid_export)
                self.disk.snapshot_baseline()
                self.fire("wisdom." + op["kind"])
                self.events.append([k, "wisdom", op["kind"]])
            elif kind == "exit":
                status = self.do_exit(k, op)
                break
            else:
                raise HarnessError("unknown op " + kind)
        return status

    def do_exit(self, k, op):
        """Simulated interpreter exit: run the atexit handlers BLDFM registered."""
        f = op.get("fault")
        handlers = list(reversed(_g["atexit"].handlers))
        self.probe("atexit_handlers", len(handlers))
        if f is not None:
            self.armed = dict(f, count=0)
        crashed = False
        try:
            for fn, a, kw in handlers:
                try:
                    fn(*a, **kw)
                except SimCrash:
                    raise
                except Exception as e:
                    # atexit prints and carries on, but the statement says no exception, ever
                    raise Violation("no-exception", "exception", f"op {k}: atexit handler raised {type(e).__name__}: {str(e)[:160]}", {"op": k, "exc": type(e).__name__})
        except SimCrash:
            crashed = True
            a = self.armed
            spec_img = {"model": a.get("model", "kill"), "tear": a.get("tear", 0), "lose_suffix": a.get("lose_suffix", 0),
                        "drop_seed": a.get("drop_seed", 0), "drop_p": a.get("drop_p", 0.5), "rename_mode": a.get("rename_mode", "ok")}
            files, dirs, info = crash_image(self.disk.base_files, self.disk.base_dirs, self.disk.journal, self.disk.pending, spec_img)
            self.disk.reset_to_image(files, dirs)
            self.fire("exit_crash." + a.get("model", "kill"))
            self.fire("exit_crash.at_" + a.get("hit_kind", "?"))
        finally:
            a = self.armed
            self.armed = None
            self.sticky = None
        if a is not None and a.get("done") and a["kind"] == "ioerror":
            self.fire("exit_ioerror." + a["errno"])
        if a is not None and not a.get("done"):
            self.probe("exit_fault_not_fired")
        if not crashed:
            self.disk.verify()  # journal completeness: every write path of the wisdom save was seen
        self.events.append([k, "exit", "crashed" if crashed else "clean", wisdom_class()])
        return "exit-crashed" if crashed else "exit-clean"


def _segment_child(w, rec, pidx, ops, first_k, run_dir, nb_dir, refs, valid_export):
    if os.environ.get("BLDFM_VERIF_DUMP_AFTER"):
        import faulthandler

        faulthandler.dump_traceback_later(float(os.environ["BLDFM_VERIF_DUMP_AFTER"]), exit=False)
    out = {"status": "ok"}
    seg = Segment(rec, pidx, ops, first_k, run_dir, nb_dir)
    try:
        out["end"] = seg.run(refs, valid_export)
    except Violation as v:
        out["status"] = "violation"
        out["violation"] = v.as_dict()
    except HarnessError as e:
        out["status"] = "harness_error"
        out["error"] = str(e)
    except BaseException:
        out["status"] = "harness_error"
        out["error"] = traceback.format_exc()[-3000:]
    out["events"] = seg.events
    out["results"] = seg.results
    out["states"] = sorted(seg.states)
    out["probes"] = seg.probes
    out["fired"] = seg.fired
    out["virtual_s"] = _g["clock"].virtual_elapsed
    out["ticks"] = _g["clock"].ticks
    try:
        out["hooks"] = dict(seg.disk.counts)
    except Exception:
        pass
    _send(w, out)


# ----------------------------------------------------------------------------
# supervisor (the run process; never solves)


def _tol(dtype):
    return 1e-12 if dtype == np.float64 else 1e-5


def execute(job):
    rec = copy.deepcopy(job["record"])
    refs = job.get("refs")
    out = {"status": "ok", "seed": rec.get("seed")}
    if refs is None or any("error" in r for r in refs):
        out["status"] = "harness_error"
        out["error"] = "reference computation failed: " + str([r.get("error") for r in refs or [] if "error" in r])[-1500:]
        return out
    run_dir = os.path.realpath(job["run_dir"])
    nb_dir = run_dir + "-numba"
    state = rec.get("numba_state", "serial_first")
    if state == "cold":
        os.makedirs(nb_dir, exist_ok=True)
    else:
        shutil.copytree(_g["numba_states"][state], nb_dir)
    seed_tempfile(rec["seed"])
    log = EventLog(keep=200)
    valid_export = _wisdom_bytes("valid_other", 0, 0)
    os.chdir(run_dir)
    iw = rec.get("initial_wisdom", "absent")
    if iw != "absent":
        set_wisdom_file(iw, rec["seed"] & 0xFFFF, 0.5, valid_export)
    # split the flat op list into simulated processes at 'exit' ops
    segs, cur, start = [], [], 0
    for k, op in enumerate(rec["ops"]):
        cur.append(op)
        if op["op"] == "exit":
            segs.append((start, cur))
            cur, start = [], k + 1
    if cur:
        segs.append((start, cur))
    all_results = []
    probes, fired, states, hooks = {}, {}, set(), {}
    virtual = 0.0
    ticks = 0
    nproc = 0
    try:
        for pidx, (first_k, ops) in enumerate(segs):
            r, w = os.pipe()
            pid = os.fork()
            if pid == 0:
                try:
                    os.close(r)
                    _segment_child(w, rec, pidx, ops, first_k, run_dir, nb_dir, refs, valid_export)
                finally:
                    os._exit(0)
            os.close(w)
            try:
                res = _recv(r)
            except EOFError:
                res = None
            os.close(r)
            _, st = os.waitpid(pid, 0)
            nproc += 1
            if res is None:
                raise Violation("no-exception", "process-died", f"simulated process {pidx} died (wait status {st}) during ops {first_k}..{first_k + len(ops) - 1}", {"op": first_k})
            for ev in res["events"]:
                log.add(pidx, *ev)
            for k2, v in res.get("probes", {}).items():
                probes[k2] = probes.get(k2, 0) + v
            for k2, v in res.get("fired", {}).items():
                fired[k2] = fired.get(k2, 0) + v
            for k2, v in res.get("hooks", {}).items():
                hooks[k2] = hooks.get(k2, 0) + v
            states.update(res.get("states", []))
            virtual += res.get("virtual_s", 0.0)
            ticks += res.get("ticks", 0)
            if res["status"] == "harness_error":
                raise HarnessError(res["error"])
            for (k, i, threads, conc, flx, grid) in res["results"]:
                all_results.append((pidx, k, i, threads, conc, flx, grid))
            if res["status"] == "violation":
                v = res["violation"]
                raise Violation(v["clause"], v["kind"], v["detail"], {kk: vv for kk, vv in v.items() if kk not in ("clause", "kind", "detail")})
        # cross-process / cross-thread / reference / precision oracles
        firsts = {}
        compared = 0
        for (pidx, k, i, threads, conc, flx, grid) in all_results:
            ref = refs[i]
            spec = rec["alphabet"][i]
            if "exc" in ref:
                raise Violation("no-exception", "no-exception", f"op {k}: spec {i} returned but the fresh-state solve raises {ref['exc']}", {"op": k})
            for name, a, b in (("conc", conc, ref["conc"]), ("flx", flx, ref["flx"])):
                if a.dtype != b.dtype or a.shape != b.shape:
                    raise Violation("rounding", "differs", f"op {k} (process {pidx}, {threads} threads): spec {i} {name} dtype/shape {a.dtype}{a.shape} != fresh-state {b.dtype}{b.shape}",
                                    {"op": k, "field": name})
                e = rel_err(a, b)
                if e > _tol(a.dtype):
                    raise Violation("rounding", "differs", f"op {k} (process {pidx}, {threads} threads): spec {i} {name} differs from the fresh-state solve, rel {e:.3e}",
                                    {"op": k, "field": name, "threads": "parallel" if threads > 1 else "serial"})
            for a, b in zip(grid, ref["grid"]):
                if a.dtype != b.dtype or a.shape != b.shape or not np.array_equal(a, b):
                    raise Violation("rounding", "differs", f"op {k}: spec {i} grid differs from the fresh-state solve", {"op": k, "field": "grid"})
            compared += 1
            key = (i,)
            if key in firsts:
                fp, fk, fthreads, fc, ff = firsts[key]
                if (fp, fthreads) != (pidx, threads):
                    for name, a, b in (("conc", conc, fc), ("flx", flx, ff)):
                        e = rel_err(a, b)
                        if e > _tol(a.dtype):
                            raise Violation("rounding", "differs", f"op {k} (process {pidx}, {threads} thr) vs op {fk} (process {fp}, {fthreads} thr): spec {i} {name} rel {e:.3e}",
                                            {"op": k, "field": name})
                    probes["cross_setting_pairs"] = probes.get("cross_setting_pairs", 0) + 1
            else:
                firsts[key] = (pidx, k, threads, conc, flx)
            # single precision vs its double twin
            if spec["precision"] == "single":
                twin = dict(spec, precision="double")
                for j, s2 in enumerate(rec["alphabet"]):
                    if canon(s2) == canon(twin) and "exc" not in refs[j]:
                        for name, a, b in (("conc", conc, refs[j]["conc"]), ("flx", flx, refs[j]["flx"])):
                            e = rel_err(a, b)
                            if e > 1e-5:
                                raise Violation("precision", "differs", f"op {k}: single-precision spec {i} {name} differs from its double twin by {e:.3e} of the field maximum",
                                                {"op": k, "field": name})
                        probes["single_vs_double_twin"] = probes.get("single_vs_double_twin", 0) + 1
        out["compared"] = compared
    except Violation as v:
        out["status"] = "violation"
        out["violation"] = v.as_dict()
    except HarnessError as e:
        out["status"] = "harness_error"
        out["error"] = str(e)
    finally:
        shutil.rmtree(nb_dir, ignore_errors=True)
    out["digest"] = log.digest()
    out["events"] = log.events[:60]
    out["record"] = rec
    out["probes"] = probes
    out["fired"] = fired
    out["states"] = sorted(states)
    out["hooks"] = hooks
    out["virtual_s"] = virtual
    out["ticks"] = ticks
    out["processes"] = nproc
    out["solves"] = len(all_results)
    return out


# ----------------------------------------------------------------------------


def violation_class(v):
    if v is None:
        return None
    return (v.get("clause"), v.get("kind"), v.get("exc") or v.get("field") or "")


def simplify(rec):
    for k, op in enumerate(rec["ops"]):
        if op.get("fault"):
            c = copy.deepcopy(rec)
            del c["ops"][k]["fault"]
            yield c
        if op.get("tick_inside"):
            c = copy.deepcopy(rec)
            del c["ops"][k]["tick_inside"]
            yield c
        if op["op"] == "threads" and op["n"] not in (1, 2):
            c = copy.deepcopy(rec)
            c["ops"][k]["n"] = 2
            yield c
        if op["op"] == "exit":
            c = copy.deepcopy(rec)
            c["ops"][k] = {"op": "reset"}
            yield c
    if rec.get("initial_wisdom", "absent") != "absent":
        c = copy.deepcopy(rec)
        c["initial_wisdom"] = "absent"
        yield c
    if rec.get("numba_state") != "serial_first":
        c = copy.deepcopy(rec)
        c["numba_state"] = "serial_first"
        yield c
    if rec.get("reuse_arrays"):
        c = copy.deepcopy(rec)
        c["reuse_arrays"] = False
        yield c
    if any(p["chunksize"] for p in rec["procs"]):
        c = copy.deepcopy(rec)
        for p in c["procs"]:
            p["chunksize"] = 0
        yield c
    # unused alphabet entries stay (indices are stable); simplify used specs toward spec 0
    base = rec["alphabet"][0]
    used = {o["spec"] for o in rec["ops"] if o["op"] == "solve"}
    for i in sorted(used):
        if i == 0:
            continue
        s = rec["alphabet"][i]
        for key in s:
            if s[key] != base.get(key):
                c = copy.deepcopy(rec)
                if key in base:
                    c["alphabet"][i][key] = copy.deepcopy(base[key])
                else:
                    del c["alphabet"][i][key]
                yield c


def plan(tier, master_seed, runs=None):
    from sim.core import run_seed

    n = runs if runs is not None else (320 if tier == "quick" else 12000)
    jobs = []
    for i in range(n):
        jobs.append({"kind": "run", "record": generate(run_seed(master_seed, PROP, i), tier, faults=(i % 10) >= 3)})
        if jobs[-1]["record"]["numba_state"] in ("cold", "parallel_only"):
            jobs[-1]["timeout"] = 900  # some simulated process has to compile a kernel
    nbig = 0 if (runs is not None and runs < 100) else (1 if tier == "quick" else 6)
    for k in range(nbig):
        # more than 2**20 (level, mode) entries: a size no random small problem reaches
        g = stream(run_seed(master_seed, PROP, f"big{k}"), "gen")
        b = S.base_spec(g)
        b.update(nx=128, ny=128, domain=[200.0, 200.0], halo=100.0, modes=[256, 256], nz=35, z0=0.1, zm=8.0, prof=g.choice(["most_unstable", "most_stable"]),
                 U=3.0, V=1.0, levels=list(range(1, 35, 2)), footprint=g.random() < 0.5, meas_pt=[0.0, 0.0], analytic=False, precision="double", bg=0.0,
                 repr=None, prof_elem=None, z_elem=None, z_scale=1.0, prof_scale=[1.0] * 5)
        rec = {"engine": "histsim", "property": PROP, "seed": run_seed(master_seed, PROP, f"big{k}"), "tier": tier, "faults": False,
               "alphabet": [b, dict(b, precision="single")],
               "ops": [{"op": "solve", "spec": 1}, {"op": "solve", "spec": 0}, {"op": "threads", "n": 4}, {"op": "solve", "spec": 1}, {"op": "threads", "n": 1}, {"op": "solve", "spec": 1}],
               "procs": [{"chunksize": 0}, {"chunksize": 0}], "numba_state": "serial_first", "initial_wisdom": "absent", "reuse_arrays": False}
        jobs.append({"kind": "run", "record": rec, "timeout": 900})
    return {"jobs": jobs, "determinism_slice": 6, "shrink_budget_s": 240}


def evidence(plan_, executed, tier, master_seed):
    runs = [(j, r) for j, r in executed if j.get("kind", "run") == "run"]
    probes, fired, hooks, states, digests, nontrivial = {}, {}, {}, set(), set(), set()
    virtual = 0.0
    ticks = solves = procs = ops = 0
    ff = fi = 0
    for j, r in runs:
        for k, v in (r.get("probes") or {}).items():
            probes[k] = probes.get(k, 0) + v
        for k, v in (r.get("fired") or {}).items():
            fired[k] = fired.get(k, 0) + v
        for k, v in (r.get("hooks") or {}).items():
            hooks[k] = hooks.get(k, 0) + v
        states.update(r.get("states") or [])
        virtual += r.get("virtual_s", 0.0)
        ticks += r.get("ticks", 0)
        solves += r.get("solves", 0)
        procs += r.get("processes", 0)
        ops += len(j["record"]["ops"])
        if j["record"].get("faults"):
            fi += 1
        else:
            ff += 1
        if r.get("digest"):
            digests.add(r["digest"])
            if (r.get("probes") or {}).get("repeat_bit_identical"):
                nontrivial.add(r["digest"])
    samples = [{"seed": j["record"]["seed"], "alphabet_size": len(j["record"]["alphabet"]), "ops": j["record"]["ops"][:16], "events": (r.get("events") or [])[:16]} for j, r in runs[:3]]
    cov = {
        "evaluations": len(runs),
        "distinct_nontrivial": len(nontrivial),
        "rule": "one evaluation = one history of 15-40 operations over a per-run alphabet of solves (shapes, modes, precisions, footprint/dispersion, analytic, halo and level variants) "
                "interleaved with thread-count changes 1..8, FFT-manager resets/re-creations, plan-cache clears, virtual-time ticks (plan-cache culls, also between the FFTs of one solve), "
                "process exits (atexit -> wisdom save, with crash / ENOSPC / EIO / EACCES injected) and wisdom-file faults. Non-trivial = the history repeated at least one (spec, thread setting) "
                "within one process (so the bit-identity oracle was exercised); distinct by event-log digest.",
        "samples": samples,
        "histories_fault_free": ff,
        "histories_fault_injecting": fi,
        "operations": ops,
        "solves_compared_with_fresh_state": solves,
        "simulated_processes": procs,
        "simulated_time_virtual_seconds": round(virtual, 1),
        "virtual_clock_ticks": ticks,
        "distinct_event_digests": len(digests),
        "distinct_state_vectors_before_solve": len(states),
        "faults_and_state_changes_fired": fired,
        "probes": probes,
        "file_api_operations_interposed": hooks,
        "components": {
            "bldfm (solver, fft_manager, utils, config)": "real, from the repository's src",
            "numba kernels, FFTW, OpenMP, pyfftw plan cache and its background thread": "real",
            "time as seen by the plan-cache thread": "stub (SimClock: sleep parks until the simulator ticks)",
            "atexit as seen by bldfm.fft_manager": "stub (recorder; handlers run LIFO by the simulated exit)",
            "process exit / new process": "real fork of a solver-cold supervisor per simulated process, shared run directory",
            "interleaving of OpenMP/FFTW native threads inside one kernel call": "real, NOT controlled (DESIGN.md section 5): varied through thread counts 1..8 and the per-process parfor chunk size only",
        },
    }
    return {"coverage": cov, "assumptions": [
        "fresh-state reference = the same solve in a fresh fork of a kernel-warm reference zygote (one thread, empty working directory)",
        "bit identity is demanded only between calls with the same thread setting in one process; 1e-12 (double) / 1e-5 (single) relative to the field maximum everywhere else",
        "native thread schedules are outside the simulator; a data race inside the kernel would be detected only with some probability and would not replay exactly",
    ]}
