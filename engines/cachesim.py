"""E1 cachesim - C15: the result cache is transparent, complete, effective and
crash-safe.

Runs the real steady_state_transport_solver(..., cache=c) and the real
run_bldfm_single/run_bldfm_timeseries (use_cache: true) over SimDisk, against
an executable reference model (the same calls with cache=None, memoised on a
key over *all* arguments).
"""

import copy
import errno
import logging
import os
import traceback

import numpy as np

from sim import clock as simclock
from sim.core import (EventLog, HarnessError, NameCanon, SimCrash, Violation,
                      arr_digest, canon, rel_err, seed_tempfile, sha, stream)
from sim.disk import InjectIOError, SimDisk, crash_image, materialize, _REAL
from . import specs as S

PROP = "C15"
CACHE_DIR = ".bldfm_cache"

_counts = {"ivp": 0, "fft": 0, "single": 0}
_single_trace = []  # (solves during this run_bldfm_single call)
_orig = {}
_cur = {}


def _install_counters():
    import bldfm.interface as bi
    import bldfm.solver as bs

    if _orig:
        return
    _orig["ivp"] = bs.ivp_solver
    _orig["fft2"] = bs.fft2
    _orig["ifft2"] = bs.ifft2
    _orig["single"] = bi.run_bldfm_single

    def ivp(*a, **k):
        _counts["ivp"] += 1
        return _orig["ivp"](*a, **k)

    def fft2(*a, **k):
        _counts["fft"] += 1
        return _orig["fft2"](*a, **k)

    def ifft2(*a, **k):
        _counts["fft"] += 1
        return _orig["ifft2"](*a, **k)

    def single(*a, **k):
        b = _counts["ivp"] + _counts["fft"]
        j0 = len(_cur["disk"].journal) if _cur.get("disk") else 0
        out = _orig["single"](*a, **k)
        j1 = len(_cur["disk"].journal) if _cur.get("disk") else 0
        _single_trace.append((_counts["ivp"] + _counts["fft"] - b, j0, j1))
        return out

    bs.ivp_solver = ivp
    bs.fft2 = fft2
    bs.ifft2 = ifft2
    bi.run_bldfm_single = single


def lane_init(ctx):
    import numba

    logging.disable(logging.CRITICAL)
    numba.config.CACHE_DIR = ctx["numba_states"]["serial_first"]
    simclock.install()
    import bldfm  # noqa: F401  (from /repo/src - sys.path set by the check)
    from bldfm import config as bcfg

    bcfg.NUM_THREADS = 1
    _install_counters()
    # warm the serial kernel for both `levels` signatures without touching the
    # FFT layer (the zygote must not own a plan-cache thread)
    n = 4
    one = np.ones(n, dtype=np.complex128)
    zero = np.zeros(n, dtype=np.complex128)
    z = np.linspace(0.1, 2.0, 4)
    prof = tuple(np.ones(4) for _ in range(5))
    L = np.linspace(0.1, 1.0, n)
    sprof = tuple(np.repeat(p, 2)[::2] for p in prof)
    for pr in (prof, sprof):
        for lv in (np.array([1, 3]), [1, 3]):
            _orig["ivp"]((one, zero), pr, z, lv, L, L)
    ctx["sig_params"] = S.signature_params()


def pre_job(job, ctx):
    if job.get("kind") == "xproc":
        import shutil

        nb = job["run_dir"] + "-numba"
        shutil.copytree(ctx["numba_states"]["serial_first"], nb)
        return dict(job, numba_dir=nb, verif=os.path.dirname(os.path.dirname(os.path.abspath(__file__))), repo_src=os.path.join(ctx["repo"], "src"))
    return job


# ----------------------------------------------------------------------------
# generation


def _cfg(rng):
    nsteps = rng.choice([2, 3, 4])
    ustar_vals = [rng.choice([0.3, 0.4, 0.5]) for _ in range(nsteps)]
    if nsteps >= 2 and rng.random() < 0.8:
        ustar_vals[-1] = ustar_vals[0]  # a repeated met condition
    nz = rng.choice([4, 5, 6])
    lv = rng.choice(["default", "default", "output_levels", "full_output"])
    dom = {
        "nx": rng.choice([8, 10, 12, 13]), "ny": rng.choice([8, 9, 12]),
        "xmax": rng.choice([80.0, 100.0]), "ymax": rng.choice([60.0, 100.0]),
        "nz": nz, "modes": rng.choice([[4, 4], [8, 8], [6, 4]]),
        "halo": rng.choice([None, None, 25.0, 40.0]),
    }
    if lv == "output_levels":
        dom["output_levels"] = sorted(rng.sample(range(1, nz + 1), 2))
    elif lv == "full_output":
        dom["full_output"] = True
    return {
        "domain": dom,
        "towers": [{"name": "T", "lat": 0.0, "lon": 0.0, "z_m": rng.choice([3.0, 5.0])}],
        "tower_xy": [rng.choice([0.0, 12.0]), rng.choice([0.0, 7.0])],
        "met": {"ustar": ustar_vals, "mol": rng.choice([-80.0, 150.0, 1e9]), "wind_speed": rng.choice([2.0, 4.0]), "wind_dir": rng.choice([200.0, 270.0, 315.0])},
        "solver": {"closure": rng.choice(["MOST", "CONSTANT"]), "footprint": True, "precision": rng.choice(["double", "single"]), "analytic": False},
        "parallel": {"use_cache": True},
    }


def _cfg_neighbour(cfg, rng):
    c = copy.deepcopy(cfg)
    kind = rng.choice(["output_levels", "full_output", "nx", "halo", "analytic", "precision", "tower", "z_m", "met", "closure", "forcing", "ny", "modes", "xmax", "mol"])
    d = c["domain"]
    if kind == "output_levels":
        d.pop("full_output", None)
        d["output_levels"] = sorted(rng.sample(range(1, d["nz"] + 1), rng.choice([1, 2])))
    elif kind == "full_output":
        d.pop("output_levels", None)
        d["full_output"] = not d.get("full_output", False)
    elif kind == "nx":
        d["nx"] += rng.choice([-1, 1, 2])
    elif kind == "halo":
        d["halo"] = rng.choice([h for h in (None, 25.0, 40.0, max(d["xmax"], d["ymax"])) if h != d["halo"]])
    elif kind == "analytic":
        c["solver"]["analytic"] = not c["solver"]["analytic"]
    elif kind == "precision":
        c["solver"]["precision"] = "single" if c["solver"]["precision"] == "double" else "double"
    elif kind == "tower":
        c["tower_xy"][0] += 5.0
    elif kind == "z_m":
        c["towers"][0]["z_m"] += 1.0
    elif kind == "met":
        c["met"]["wind_dir"] += 20.0
    elif kind == "closure":
        c["solver"]["closure"] = "CONSTANT" if c["solver"]["closure"] == "MOST" else "MOST"
    elif kind == "forcing":
        if "z0" in c["met"]:
            c["met"].pop("z0")
        else:
            c["met"]["z0"] = 0.07  # z0 takes precedence over ustar
    elif kind == "ny":
        d["ny"] += rng.choice([-1, 1, 2])
    elif kind == "modes":
        d["modes"] = rng.choice([m for m in ([4, 4], [8, 8], [6, 4], [4, 6]) if m != d["modes"]])
    elif kind == "xmax":
        d["xmax"] = d["xmax"] * 1.25
    elif kind == "mol":
        c["met"]["mol"] = -80.0 if c["met"]["mol"] != -80.0 else 150.0
    return c, kind


def generate(seed, tier="quick", faults=True):
    gen = stream(seed, "gen")
    fault = stream(seed, "fault")
    specs = [S.base_spec(gen)]
    meta = [{"rel": "fresh"}]
    cfgs = []
    cmeta = []
    ops = []
    nops = gen.randrange(6, 26)
    if stream(seed, "size").random() < (0.2 if tier == "thorough" else 0.03):
        nops = gen.randrange(40, 81)  # a long history: many entries, many restarts
    interface = gen.random() < 0.34
    use_forks = gen.random() < (0.05 if tier == "thorough" else 0.03)

    def add_spec(s, m):
        cs = canon(s)
        for i, t in enumerate(specs):
            if canon(t) == cs:
                return i
        specs.append(s)
        meta.append(m)
        return len(specs) - 1

    def pick_req():
        r = gen.random()
        if r < 0.35 and ops:
            prev = [o["spec"] for o in ops if o["op"] == "req"]
            if prev:
                return gen.choice(prev)
        if r < 0.80:
            for _ in range(8):
                p = gen.randrange(len(specs))
                kind = gen.choice(S.NEIGHBOUR_KINDS)
                s = S.neighbour(specs[p], kind, gen)
                if s is not None:
                    return add_spec(s, {"rel": "neighbour", "of": p, "kind": kind})
        return add_spec(S.base_spec(gen), {"rel": "fresh"})

    while len(ops) < nops:
        r = gen.random()
        if interface and r < 0.25:
            if cfgs and gen.random() < 0.6:
                if gen.random() < 0.5:
                    j = gen.randrange(len(cfgs))
                else:
                    c, kind = _cfg_neighbour(cfgs[gen.randrange(len(cfgs))], gen)
                    cfgs.append(c)
                    cmeta.append(kind)
                    j = len(cfgs) - 1
            else:
                cfgs.append(_cfg(gen))
                cmeta.append("fresh")
                j = len(cfgs) - 1
            if gen.random() < 0.25:
                ops.append({"op": "chdir"})
            ops.append({"op": "series", "cfg": j})
        elif r < 0.70 or not ops:
            ops.append({"op": "req", "spec": pick_req()})
        elif r < 0.78:
            ops.append({"op": "restart", "fork": use_forks})
        elif r < 0.81:
            ops.append({"op": "clear"})
        elif faults and r < 0.90:
            # a crash inside a request that stores, then the same request twice
            i = pick_req()
            f = {"kind": "crash", "at_frac": fault.random(), "tear_frac": fault.random(),
                 "model": fault.choice(["kill", "kill", "power"]),
                 "lose_suffix": fault.choice([0, 0, 1, 3, 8]),
                 "drop_seed": fault.randrange(1 << 30), "drop_p": fault.choice([0.2, 0.5, 0.9]),
                 "rename_mode": fault.choice(["ok", "zero_len", "zero_fill", "lost"])}
            if gen.random() < 0.5:
                ops.append({"op": "clear"})
            ops.append({"op": "req", "spec": i, "fault": f})
            if gen.random() < 0.8:
                ops.append({"op": "req", "spec": i})
                ops.append({"op": "req", "spec": i})
                if gen.random() < 0.25:
                    # recovery must work more than once
                    ops.append({"op": "clear"})
                    ops.append({"op": "req", "spec": i, "fault": dict(f, at_frac=fault.random())})
                    ops.append({"op": "req", "spec": i})
                    ops.append({"op": "req", "spec": i})
        elif faults and r < 0.95:
            i = pick_req()
            f = {"kind": "ioerror", "errno": fault.choice(["ENOSPC", "ENOSPC", "EIO"]),
                 "at_frac": fault.random(), "partial_frac": fault.choice([0.0, 0.5])}
            ops.append({"op": "req", "spec": i, "fault": f})
            if gen.random() < 0.8:
                ops.append({"op": "req", "spec": i})
                ops.append({"op": "req", "spec": i})
        elif faults:
            prev = [o["spec"] for o in ops if o["op"] == "req"]
            if prev:
                i = gen.choice(prev)
                how = fault.choice([
                    {"kind": "truncate", "frac": fault.random()},
                    {"kind": "truncate", "frac": 0.0},
                    {"kind": "zero", "a": fault.random() * 0.7, "b": 1.0},
                    {"kind": "zero", "a": 0.0, "b": 1.0},
                    {"kind": "nopatch"},
                    {"kind": "sector", "frac": fault.random()},
                    {"kind": "sector", "frac": fault.random()},
                    # clock skew between the machine that wrote the entry and the one
                    # that reads it: the file's timestamps say 'years ago' / 'tomorrow'
                    {"kind": "mtime", "days": -1200.0},
                    {"kind": "mtime", "days": 1.5},
                ])
                ops.append({"op": "damage", "spec": i, "how": how})
                if gen.random() < 0.8:
                    ops.append({"op": "req", "spec": i})
                    ops.append({"op": "req", "spec": i})
    return {"engine": "cachesim", "property": PROP, "seed": seed, "tier": tier,
            "faults": faults, "reuse_arrays": gen.random() < 0.5, "specs": specs, "spec_meta": meta, "cfgs": cfgs, "cfg_meta": cmeta, "ops": ops}


# ----------------------------------------------------------------------------
# execution


def _scribble(res):
    """A caller may do what it likes with the arrays it was given (without a
    cache they are fresh on every call): overwrite them, so that a cache layer
    that hands out views of its own state shows up at the next hit."""
    try:
        grid, conc, flx = res
        for a in list(grid) + [conc, flx]:
            if isinstance(a, np.ndarray) and a.flags.writeable and a.dtype.kind == "f":
                a[...] = np.nan
    except Exception:
        pass


def _same(a, b):
    a = np.asarray(a)
    b = np.asarray(b)
    return a.dtype == b.dtype and a.shape == b.shape and np.array_equal(a, b, equal_nan=True)


def compare_result(res, exp, double):
    """None if equal, else (field, why). Counts inexact-but-within-tolerance via return 'inexact'."""
    try:
        grid, conc, flx = res
        fields = [("X", grid[0]), ("Y", grid[1]), ("Z", grid[2]), ("conc", conc), ("flx", flx)]
    except Exception as e:  # not a (grid, conc, flx)
        return ("result", f"malformed: {type(e).__name__}")
    egrid, econc, eflx = exp
    efields = [egrid[0], egrid[1], egrid[2], econc, eflx]
    inexact = False
    for (name, a), b in zip(fields, efields):
        a = np.asarray(a)
        b = np.asarray(b)
        if a.dtype != b.dtype:
            return (name, f"dtype {a.dtype} != {b.dtype}")
        if a.shape != b.shape:
            return (name, f"shape {a.shape} != {b.shape}")
        if not np.array_equal(a, b, equal_nan=True):
            tol = 1e-12 if a.dtype == np.float64 else 2e-6
            e = rel_err(a, b)
            if e > tol:
                return (name, f"values differ, rel {e:.3e}")
            inexact = True
    return "inexact" if inexact else None


class _ForkResult(BaseException):
    def __init__(self, out):
        self.out = out


class Run:
    fork_w = None

    def __init__(self, record, run_dir):
        self.rec = record
        self.run_dir = os.path.realpath(run_dir)
        os.chdir(self.run_dir)
        self.disk = SimDisk(self.run_dir)
        _cur["disk"] = self.disk
        self.log = EventLog()
        self.names = NameCanon()
        seed_tempfile(record.get("seed", 0))
        self.model = {}
        self.model_step = {}
        self.intact = {}  # spec key -> tuple of the files its store created (usually one)
        self.bad_files = set()
        self.probes = {}
        self.states = set()
        self.fired = {}
        self.armed = None
        self.put_hooks = None
        self.nreq = 0
        self.cfg_objs = {}
        self.proc = 0
        self.sticky = None
        self.ops_done = 0
        self.pairs = set()
        self.real_proc = 0
        self.stored_by = {}
        self.cwd_tag = ""

    def probe(self, name, n=1):
        self.probes[name] = self.probes.get(name, 0) + n

    def fire(self, name):
        self.fired[name] = self.fired.get(name, 0) + 1

    # -- model ---------------------------------------------------------------
    def expect(self, i):
        key = canon(self.rec["specs"][i])
        if key not in self.model:
            from bldfm.solver import steady_state_transport_solver as solve

            args = S.build_args(self.rec["specs"][i])
            try:
                self.model[key] = ("ok", solve(**args, cache=None))
            except Exception as e:
                self.model[key] = ("exc", type(e).__name__)
        return self.model[key]

    def cfg_obj(self, j):
        from bldfm.config_parser import parse_config_dict

        raw = copy.deepcopy(self.rec["cfgs"][j])
        xy = raw.pop("tower_xy")
        cfg = parse_config_dict(raw)
        cfg.towers[0].x, cfg.towers[0].y = xy
        return cfg

    def step_key(self, j, i):
        raw = self.rec["cfgs"][j]
        met = {k: (v[i] if isinstance(v, list) else v) for k, v in raw["met"].items()}
        return canon({"d": raw["domain"], "s": raw["solver"], "t": [raw["tower_xy"], raw["towers"][0]["z_m"]], "m": met})

    def expect_step(self, j, i):
        key = self.step_key(j, i)
        if key not in self.model_step:
            cfg = self.cfg_obj(j)
            try:
                r = _orig["single"](cfg, cfg.towers[0], met_index=i, cache=None)
                self.model_step[key] = ("ok", r)
            except Exception as e:
                self.model_step[key] = ("exc", type(e).__name__)
        return self.model_step[key]

    # -- simulated process ------------------------------------------------------
    def new_process(self):
        from bldfm.cache import GreensFunctionCache

        self.cache = GreensFunctionCache(CACHE_DIR)
        self.proc += 1

    def entry_files(self):
        d = os.path.join(self.run_dir, self.cwd_tag, CACHE_DIR)
        return _list_files(d) if os.path.isdir(d) else []

    # -- fault hook --------------------------------------------------------------
    def hook(self, disk, idx, kind, rel, info):
        a = self.armed
        if a is None:
            return
        if self.sticky is not None and kind in ("WRITE", "CREATE", "FLUSH", "CLOSE"):
            # a full disk stays full until the request is over
            raise InjectIOError(self.sticky, 0)
        k = idx - a["start"]
        if k != a["at"] or a.get("done"):
            return
        a["done"] = True
        a["hit_kind"] = kind
        if a["kind"] == "crash":
            if kind == "WRITE":
                a["tear"] = int(a["tear_frac"] * len(info["data"])) if "tear" not in a else a["tear"]
            raise SimCrash()
        else:
            err = getattr(errno, a["errno"])
            if kind in ("OPENR", "STAT"):
                a["done"] = False
                a["at"] += 1  # read opens cannot run out of space: fail the next operation
                return
            part = 0
            if kind == "WRITE":
                part = int(a.get("partial_frac", 0.0) * len(info["data"]))
            if a["errno"] == "ENOSPC":
                self.sticky = err
            raise InjectIOError(err, part)

    # -- invariant helpers ---------------------------------------------------------
    def abstract_state(self):
        files = self.entry_files()
        pre = os.path.join(self.cwd_tag, CACHE_DIR)
        owned = {f for fl in self.intact.values() for f in fl}
        valid = sum(1 for f in files if os.path.join(pre, f) in owned - self.bad_files)
        bad = sum(1 for f in files if os.path.join(pre, f) in self.bad_files)
        other = len(files) - valid - bad
        return f"v{min(valid, 3)}b{min(bad, 2)}o{min(other, 2)}"

    def stored_file(self, j0, j1=None):
        """The cache entry a request wrote: the surviving CREATE/RENAME target."""
        cands = []
        for op in self.disk.journal[j0:j1]:
            if op[0] == "CREATE":
                cands.append(op[1])
            elif op[0] == "RENAME":
                cands.append(op[2])
        pre = (self.cwd_tag + "/" if self.cwd_tag else "") + CACHE_DIR + "/"
        out = [c for c in dict.fromkeys(cands) if c.startswith(pre) and os.path.exists(os.path.join(self.run_dir, c))]
        return out

    def cause_of(self, res, i):
        """Which earlier request's answer is this? -> differing arguments."""
        try:
            got = sha([arr_digest(res[1]), arr_digest(res[2])])
        except Exception:
            return None
        for key, (st, val) in self.model.items():
            if st != "ok" or key == canon(self.rec["specs"][i]):
                continue
            if sha([arr_digest(val[1]), arr_digest(val[2])]) == got:
                import json

                return S.diff_params(json.loads(key), self.rec["specs"][i])
        return None

    # -- operations ------------------------------------------------------------
    def op_req(self, op, k):
        from bldfm.solver import steady_state_transport_solver as solve

        i = op["spec"]
        spec = self.rec["specs"][i]
        skey = self.cwd_tag + canon(spec)
        if self.cache is None:  # first direct request after a chdir (before any fault is armed)
            self.new_process()
            self.proc -= 1
        st, exp = self.expect(i)
        args = S.build_args(spec, reuse=self.rec.get("reuse_arrays", False))
        meta = self.rec["spec_meta"][i] if i < len(self.rec.get("spec_meta", [])) else {}
        rel = "same" if skey in self.intact else (f"nb:{meta.get('kind')}" if meta.get("rel") == "neighbour" else "fresh")
        self.states.add(f"{self.abstract_state()}|req|{rel}")
        if meta.get("rel") == "neighbour" and self.cwd_tag + canon(self.rec["specs"][meta["of"]]) in self.intact:
            self.pairs.add(meta["kind"])
        should_hit = (spec["footprint"] and skey in self.intact and not any(f in self.bad_files for f in self.intact[skey])
                      and all(os.path.exists(os.path.join(self.run_dir, f)) for f in self.intact[skey]))
        f = op.get("fault")
        j0 = len(self.disk.journal)
        self.armed = None
        self.sticky = None
        if f is not None:
            a = dict(f)
            a["start"] = self.disk.nhook
            if "at" not in a:
                a["at"] = int(a["at_frac"] * (self.put_hooks or 50))
                f["at"] = a["at"]
            self.armed = a
        b = _counts["ivp"] + _counts["fft"]
        faulted = None
        try:
            res = solve(**args, cache=self.cache)
        except SimCrash:
            a = self.armed
            self.armed = None
            if "tear" in a:
                f["tear"] = a["tear"]
            self.fire("crash." + a["model"])
            self.fire("crash.at_" + a.get("hit_kind", "?"))
            spec_img = {"model": a["model"], "tear": a.get("tear", 0), "lose_suffix": a.get("lose_suffix", 0),
                        "drop_seed": a.get("drop_seed", 0), "drop_p": a.get("drop_p", 0.5), "rename_mode": a.get("rename_mode", "ok")}
            files, dirs, info = crash_image(self.disk.base_files, self.disk.base_dirs, self.disk.journal, self.disk.pending, spec_img)
            for kk in ("torn_bytes", "lost_suffix_writes", "dropped_unsynced_writes", "rename_mode"):
                if info.get(kk):
                    self.fire("crash." + kk + ("=" + info[kk] if kk == "rename_mode" else ""))
            os.chdir(self.run_dir)
            self.disk.reset_to_image(files, dirs)
            os.makedirs(os.path.join(self.run_dir, self.cwd_tag), exist_ok=True)
            os.chdir(os.path.join(self.run_dir, self.cwd_tag))
            self.log.add(k, "crash", a["at"], a.get("hit_kind"), a["model"], sorted((self.names(p), len(d)) for p, d in files.items()))
            # nothing this process acknowledged is trusted to have survived a
            # power loss; after a kill only entries this request touched are suspect
            touched = {op2[1] for op2 in self.disk.journal[j0:] if op2[0] in ("CREATE", "WRITE", "TRUNC")} | {op2[2] for op2 in self.disk.journal[j0:] if op2[0] == "RENAME"}
            if a["model"] == "power":
                self.intact.clear()
            else:
                for s2, fl in list(self.intact.items()):
                    if any(f in touched for f in fl) or s2 == skey:
                        del self.intact[s2]
            self.bad_files.clear()
            self.new_process()
            self.probe("restart_after_crash")
            return
        except OSError as e:
            a = self.armed
            if a is not None and a.get("done") and a["kind"] == "ioerror" and e.errno == getattr(errno, a["errno"]):
                faulted = e.errno
                self.fire("ioerror." + a["errno"])
                self.fire("ioerror.at_" + a.get("hit_kind", "?"))
                self.log.add(k, "req", i, "ioerror-raised", a["errno"])
            else:
                raise Violation("never-fatal", "exception", f"request {k} (spec {i}) raised {type(e).__name__}: {e}",
                                {"op": k, "exc": type(e).__name__})
        except Exception as e:
            if st == "exc" and type(e).__name__ == exp:
                self.log.add(k, "req", i, "same-exception", exp)
                self.armed = None
                return
            files = self.entry_files()
            raise Violation("never-fatal", "exception", f"request {k} (spec {i}) raised {type(e).__name__}: {str(e)[:200]}",
                            {"op": k, "exc": type(e).__name__, "tb": traceback.format_exc()[-1500:], "files": files[:6]})
        finally:
            a = self.armed
            self.armed = None
            self.sticky = None
        solved = _counts["ivp"] + _counts["fft"] - b
        if a is not None and not a.get("done"):
            self.probe("fault_armed_not_fired")
        if a is not None and a.get("done") and a["kind"] == "ioerror" and faulted is None:
            self.fire("ioerror.swallowed")
        self.disk.verify()
        if faulted is not None:
            # the store failed: the entry (and whatever the request touched) is suspect
            touched = {op2[1] for op2 in self.disk.journal[j0:] if op2[0] in ("CREATE", "WRITE", "TRUNC")} | {op2[2] for op2 in self.disk.journal[j0:] if op2[0] == "RENAME"}
            for s2, fl in list(self.intact.items()):
                if any(f in touched for f in fl) or s2 == skey:
                    del self.intact[s2]
            return
        if st == "exc":
            raise Violation("transparent", "no-exception", f"request {k} returned but the cache-less solve raises {exp}", {"op": k})
        cmpres = compare_result(res, exp, spec["precision"] == "double")
        if cmpres == "inexact":
            # equality to rounding is all C12 promises between processes - but
            # within one OS process a solve is bit-reproducible, so whatever this
            # process solved or stored itself must come back bit for bit
            src = self.stored_by.get((self.intact.get(skey) or (None,))[0])
            if solved or src == self.real_proc:
                raise Violation("transparent", "wrong-result", f"request {k} (spec {i}) is not bit-identical to the cache-less solve in the same process "
                                f"({'solved' if solved else 'served from an entry this process stored'}): values were rounded on the way", {"op": k, "field": "rounded", "cause": ["rounding"]})
            self.probe("inexact_within_tolerance")
            cmpres = None
        if cmpres is not None:
            cause = self.cause_of(res, i)
            raise Violation("transparent", "wrong-result",
                            f"request {k} (spec {i}) field {cmpres[0]}: {cmpres[1]}; answer belongs to a request differing in {cause}",
                            {"op": k, "field": cmpres[0], "cause": cause})
        # (no bit-level array digests in the run digest: across processes C12
        # only promises equality to rounding)
        self.log.add(k, "req", i, "hit" if not solved else "solved", [str(np.asarray(res[1]).dtype), list(np.shape(res[1]))])
        _scribble(res)
        if spec["footprint"]:
            if should_hit and solved:
                raise Violation("effective", "re-solved",
                                f"request {k} (spec {i}) repeats an identical stored request but solved again (entry {self.intact[skey]} present)",
                                {"op": k, "halo": "default" if spec["halo"] is None else "explicit"})
            if not solved:
                self.probe("hit")
                if should_hit and self.proc > 1:
                    self.probe("hit_after_restart")
            stored = self.stored_file(j0)
            if a is not None and a.get("done"):
                return  # a swallowed I/O error: the store is not acknowledged
            if stored:
                # every file the store created or renamed into the directory is
                # 'the entry' (usually exactly one)
                self.intact[skey] = tuple(sorted(stored))
                for f in stored:
                    self.stored_by[f] = self.real_proc
                    self.bad_files.discard(f)
            elif len(stored) == 0 and not solved:
                # a correct hit on an entry another request stored: remember it
                if skey not in self.intact:
                    self.probe("shared_entry_hit")
            if solved and not stored:
                self.probe("solved_but_not_stored")
        else:
            if len(self.disk.journal) != j0:
                self.probe("non_footprint_touched_disk")

    def op_series(self, op, k):
        import bldfm.interface as bi

        j = op["cfg"]
        cfg = self.cfg_obj(j)
        n = cfg.met.n_timesteps
        self.states.add(f"{self.abstract_state()}|series|{self.rec['cfg_meta'][j] if j < len(self.rec.get('cfg_meta', [])) else ''}")
        exps = [self.expect_step(j, i) for i in range(n)]
        del _single_trace[:]
        try:
            out = bi.run_bldfm_timeseries(cfg, cfg.towers[0])
        except Exception as e:
            if any(st == "exc" and ex == type(e).__name__ for st, ex in exps):
                return
            raise Violation("never-fatal", "exception", f"series op {k} raised {type(e).__name__}: {str(e)[:200]}",
                            {"op": k, "exc": type(e).__name__, "tb": traceback.format_exc()[-1500:]})
        self.disk.verify()
        if len(out) != n:
            raise Violation("transparent", "wrong-result", f"series op {k}: {len(out)} results for {n} steps", {"op": k})
        trace = list(_single_trace)
        for i in range(n):
            st, exp = exps[i]
            if st != "ok":
                continue
            r = out[i]
            c = compare_result((r["grid"], r["conc"], r["flx"]), (exp["grid"], exp["conc"], exp["flx"]), True)
            if c == "inexact":
                self.probe("inexact_within_tolerance")
                c = None
            if c is not None:
                raise Violation("transparent", "wrong-result", f"series op {k} step {i} field {c[0]}: {c[1]}", {"op": k, "field": c[0], "cause": ["interface"]})
            _scribble((r["grid"], r["conc"], r["flx"]))
            key = self.cwd_tag + self.step_key(j, i)
            solved, j0, j1 = trace[i] if i < len(trace) else (None, 0, 0)
            fl = self.intact.get(key)
            if fl is not None and not any(f in self.bad_files for f in fl) and all(os.path.exists(os.path.join(self.run_dir, f)) for f in fl):
                if solved:
                    raise Violation("effective", "re-solved", f"series op {k} step {i} repeats an identical stored step but solved again",
                                    {"op": k, "halo": "default" if self.rec["cfgs"][j]["domain"].get("halo") is None else "explicit"})
                if solved == 0:
                    self.probe("series_hit")
            if solved is not None:
                stored = self.stored_file(j0, j1)
                if stored:
                    self.intact[key] = tuple(sorted(stored))
                    for f in stored:
                        self.stored_by[f] = self.real_proc
                        self.bad_files.discard(f)
        self.log.add(k, "series", j, [list(np.shape(r["flx"])) for r in out], [t[0] for t in trace])

    def op_damage(self, op, k):
        skey = self.cwd_tag + canon(self.rec["specs"][op["spec"]])
        fl = self.intact.get(skey) or ()
        cand = [f for f in fl if f.endswith(".npz")] or list(fl)
        rel = cand[0] if cand else None
        if rel is None or not os.path.exists(os.path.join(self.run_dir, rel)):
            self.probe("damage_no_target")
            return
        p = os.path.join(self.run_dir, rel)
        with _REAL["open"](p, "rb") as fh:
            data = fh.read()
        how = op["how"]
        if how["kind"] == "mtime":
            # not damage: the entry stays valid, only its timestamps move
            import time as _t

            t = _t.time() + how["days"] * 86400.0
            os.utime(p, (t, t))
            self.fire("clock_skew.mtime_" + ("past" if how["days"] < 0 else "future"))
            self.log.add(k, "mtime", how["days"])
            return
        if how["kind"] == "truncate":
            new = data[: int(how["frac"] * len(data))]
        elif how["kind"] == "zero":
            a, b = int(how["a"] * len(data)), int(how["b"] * len(data))
            new = data[:a] + b"\0" * (b - a) + data[b:]
        elif how["kind"] == "sector":
            a = (int(how["frac"] * len(data)) // 512) * 512
            new = data[:a] + b"\0" * (min(len(data), a + 512) - a) + data[a + 512:]
        elif how["kind"] == "nopatch":
            # lose the second half of the file's bytes written by seek-back:
            # zip local headers keep their placeholder CRC/sizes
            new = bytearray(data)
            i = 0
            while True:
                i = data.find(b"PK\x03\x04", i)
                if i < 0:
                    break
                new[i + 14 : i + 26] = b"\0" * 12
                i += 4
            new = bytes(new)
        else:
            raise HarnessError("unknown damage " + how["kind"])
        self.states.add(f"{self.abstract_state()}|damage|{how['kind']}")
        with _REAL["open"](p, "wb") as fh:
            fh.write(new)
        # the damage happened behind the journal's back on purpose: re-baseline
        self.disk.flush_live()
        self.disk.snapshot_baseline()
        self.bad_files.add(rel)
        for s2, fl in list(self.intact.items()):
            if rel in fl:
                del self.intact[s2]
        self.fire("damage." + how["kind"])
        self.log.add(k, "damage", how["kind"], len(data), len(new))

    def op_clear(self, k):
        self.states.add(f"{self.abstract_state()}|clear|")
        if self.cache is None:
            self.new_process()
            self.proc -= 1
        try:
            self.cache.clear()
        except Exception as e:
            raise Violation("never-fatal", "exception", f"clear() at op {k} raised {type(e).__name__}: {e}", {"op": k, "exc": type(e).__name__})
        self.disk.verify()
        pre = os.path.join(self.cwd_tag, CACHE_DIR) + "/"
        for s2, fl in list(self.intact.items()):
            if any(f.startswith(pre) for f in fl):
                del self.intact[s2]
        self.bad_files = {f for f in self.bad_files if not f.startswith(pre)}
        self.log.add(k, "clear", sorted(self.names(f) for f in self.entry_files()))

    def fork_continue(self):
        """The rest of the history runs in a genuinely separate OS process (a
        fork that carries the harness's bookkeeping along); this process only
        waits for it and relays its result."""
        from sim.harness import _recv

        r, w = os.pipe()
        pid = os.fork()
        if pid == 0:
            os.close(r)
            self.fork_w = w
            self.real_proc += 1
            # reference values are recomputed in this process: across processes
            # C12 only promises equality to rounding, so nothing computed by the
            # parent may be compared bit for bit with what this process solves
            self.model.clear()
            self.model_step.clear()
            seed_tempfile((self.rec.get("seed", 0) + self.proc) & 0xFFFFFFFF)
            return
        os.close(w)
        try:
            out = _recv(r)
        except EOFError:
            out = None
        os.close(r)
        _, st = os.waitpid(pid, 0)
        if out is None:
            raise Violation("never-fatal", "process-died", f"the process after a restart died (wait status {st})", {})
        raise _ForkResult(out)

    def measure_put(self):
        """How many hook points one storing request has on this tree (so that
        fault positions drawn as fractions land inside it)."""
        from bldfm.cache import GreensFunctionCache
        from bldfm.solver import steady_state_transport_solver as solve

        c = GreensFunctionCache("probe_cache")
        args = S.build_args(self.rec["specs"][0])
        args["footprint"] = True
        n0 = self.disk.nhook
        try:
            solve(**args, cache=c)
        except Exception:
            pass
        self.put_hooks = max(1, self.disk.nhook - n0)
        self.disk.flush_live()
        import shutil

        shutil.rmtree(os.path.join(self.run_dir, "probe_cache"), ignore_errors=True)
        self.disk.snapshot_baseline()
        self.disk.nhook = 0

    def run(self):
        self.disk.hook = self.hook
        self.disk.install()
        self.measure_put()
        self.new_process()
        self.disk.snapshot_baseline()
        for k, op in enumerate(self.rec["ops"]):
            kind = op["op"]
            if kind == "req":
                self.op_req(op, k)
            elif kind == "series":
                self.op_series(op, k)
            elif kind == "restart":
                if op.get("fork"):
                    self.fork_continue()
                    self.probe("restart_in_new_os_process")
                self.new_process()
                self.log.add(k, "restart")
            elif kind == "clear":
                self.op_clear(k)
            elif kind == "chdir":
                # the user changes the working directory between runs (another
                # project): the default cache directory is relative to it
                self.cwd_tag = "" if self.cwd_tag else "sub"
                d = os.path.join(self.run_dir, self.cwd_tag)
                os.makedirs(d, exist_ok=True)
                os.chdir(d)
                self.cache = None  # the direct-request cache object is created when first needed
                self.proc += 1
                self.probe("chdir")
                self.log.add(k, "chdir", self.cwd_tag)
            elif kind == "damage":
                self.op_damage(op, k)
            else:
                raise HarnessError("unknown op " + kind)
            self.ops_done += 1


def execute(job):
    kind = job.get("kind", "run")
    if kind == "run":
        return execute_run(job)
    if kind == "enum_trunc":
        return execute_enum_trunc(job)
    if kind == "enum_journal":
        return execute_enum_journal(job)
    if kind == "enum_kill":
        return execute_enum_kill(job)
    if kind == "xproc":
        return execute_xproc(job)
    if kind == "many":
        return execute_many(job)
    raise HarnessError("unknown job kind " + kind)


def execute_run(job):
    rec = copy.deepcopy(job["record"])
    run = Run(rec, job["run_dir"])
    out = {"status": "ok", "seed": rec.get("seed")}
    try:
        run.run()
    except _ForkResult as fr:
        run.disk.uninstall()
        if run.fork_w is not None:
            # this process is itself the continuation of an earlier restart:
            # hand the result up the chain, never to the harness pipe
            from sim.harness import _send

            _send(run.fork_w, fr.out)
            os._exit(0)
        return fr.out
    except Violation as v:
        out["status"] = "violation"
        out["violation"] = v.as_dict()
    except HarnessError as e:
        out["status"] = "harness_error"
        out["error"] = str(e)
    except BaseException:
        if run.fork_w is None:
            raise
        out["status"] = "harness_error"
        out["error"] = traceback.format_exc()[-3000:]
    finally:
        run.disk.uninstall()
    out["digest"] = run.log.digest()
    out["events"] = run.log.events[:60]
    out["record"] = rec
    out["ops_done"] = run.ops_done
    out["probes"] = run.probes
    out["fired"] = run.fired
    out["states"] = sorted(run.states)
    out["pairs"] = sorted(run.pairs)
    out["hooks"] = dict(run.disk.counts)
    out["put_hooks"] = run.put_hooks
    if run.fork_w is not None:
        from sim.harness import _send

        _send(run.fork_w, out)
        os._exit(0)
    return out


# ----------------------------------------------------------------------------
# enumerated sub-space: every truncation length, every journal boundary


def _plain_store_failed(e, what):
    """A plain store (no fault injected by the simulator) raised."""
    import errno as _e

    if isinstance(e, OSError) and e.errno in (_e.ENOSPC, _e.EDQUOT, _e.EMFILE, _e.ENFILE, _e.ENOMEM):
        return HarnessError(f"the machine ran out of a resource during {what}: {e}")
    return Violation("never-fatal", "exception", f"{what} raised {type(e).__name__}: {str(e)[:200]}", {"exc": type(e).__name__})


def _list_files(root=CACHE_DIR):
    """Regular files below the cache directory, as paths relative to it."""
    out = []
    for dp, _dn, fn in os.walk(root):
        for f in fn:
            out.append(os.path.relpath(os.path.join(dp, f), root))
    return sorted(out)


def _clear_files(keep=()):
    """Remove the regular files below the cache directory (directories stay:
    what the code under test created there stays, as in a user's directory)."""
    for f in _list_files():
        if f not in keep:
            os.unlink(os.path.join(CACHE_DIR, f))


def _store_entry(spec, run_dir):
    from bldfm.cache import GreensFunctionCache
    from bldfm.solver import steady_state_transport_solver as solve

    os.chdir(run_dir)
    args = S.build_args(spec)
    exp = solve(**args, cache=None)
    disk = SimDisk(run_dir)
    disk.install()
    try:
        c = GreensFunctionCache(CACHE_DIR)
        try:
            solve(**args, cache=c)
        except Exception as e:
            raise _plain_store_failed(e, "a plain storing request")
        disk.verify()
        journal = list(disk.journal)
    finally:
        disk.uninstall()
    files = _list_files()
    return args, exp, journal, files


def _check_after_damage(args, exp, what, recheck):
    from bldfm.cache import GreensFunctionCache
    from bldfm.solver import steady_state_transport_solver as solve

    c = GreensFunctionCache(CACHE_DIR)
    try:
        res = solve(**args, cache=c)
    except Exception as e:
        raise Violation("never-fatal", "exception", f"{what}: next request raised {type(e).__name__}: {str(e)[:160]}", {"exc": type(e).__name__})
    cmpres = compare_result(res, exp, True)
    if cmpres not in (None, "inexact"):
        raise Violation("never-returned", "wrong-result", f"{what}: field {cmpres[0]}: {cmpres[1]}", {"field": cmpres[0]})
    if recheck:
        b = _counts["ivp"] + _counts["fft"]
        try:
            res = solve(**args, cache=GreensFunctionCache(CACHE_DIR))
        except Exception as e:
            raise Violation("never-fatal", "exception", f"{what}: second request raised {type(e).__name__}", {"exc": type(e).__name__})
        if _counts["ivp"] + _counts["fft"] != b:
            raise Violation("effective", "re-solved", f"{what}: the entry was not re-established by the request after the damaged one", {"halo": "default" if args["halo"] is None else "explicit"})
        cmpres = compare_result(res, exp, True)
        if cmpres not in (None, "inexact"):
            raise Violation("never-returned", "wrong-result", f"{what} (second request): field {cmpres[0]}: {cmpres[1]}", {"field": cmpres[0]})


def execute_enum_trunc(job):
    spec = job["spec"]
    out = {"status": "ok", "cases": 0, "kind": "enum_trunc"}
    try:
        args, exp, journal, files = _store_entry(spec, job["run_dir"])
        if not files:
            raise HarnessError("the storing request left no file in the cache directory")
        # usually one entry file; a tree that splits an entry over several files
        # gets every one of them truncated in turn (the others intact)
        contents = {}
        for f in files:
            fp = os.path.join(CACHE_DIR, f)
            if os.path.isfile(fp):
                with open(fp, "rb") as fh:
                    contents[f] = fh.read()
        out["entry_len"] = max(len(d) for d in contents.values())
        out["entry_files"] = len(contents)
        lo = job.get("lo", 0)
        for f in sorted(contents):
            data = contents[f]
            hi = min(job.get("hi", len(data)), len(data))
            for L in range(lo, hi):
                _clear_files()
                for g, d in contents.items():
                    os.makedirs(os.path.dirname(os.path.join(CACHE_DIR, g)), exist_ok=True)
                    with open(os.path.join(CACHE_DIR, g), "wb") as fh:
                        fh.write(d if g != f else d[:L])
                out["case"] = {"kind": "enum_trunc", "spec": spec, "lo": L, "hi": L + 1}
                _check_after_damage(args, exp, f"{'entry' if len(contents) == 1 else 'file ' + f[:16]} truncated to {L} of {len(data)} bytes", recheck=(L % 16 == 0))
                out["cases"] += 1
        out.pop("case", None)
    except Violation as v:
        out["status"] = "violation"
        out["violation"] = v.as_dict()
    except HarnessError as e:
        out["status"] = "harness_error"
        out["error"] = str(e)
    return out


def _journal_variants(journal, entry_rel):
    """Images of the cache directory for every journal boundary x variant."""
    full_files, _ = materialize({}, set(), journal)
    nops = len(journal)
    for p in range(nops + 1):
        prefix = journal[:p]
        pend = journal[p] if p < nops else None
        yield (p, "prefix"), materialize({}, set(), prefix)[0]
        if pend is not None and pend[0] == "WRITE" and len(pend[3]) > 1:
            torn = ("WRITE", pend[1], pend[2], pend[3][: len(pend[3]) // 2], pend[4])
            yield (p, "torn"), materialize({}, set(), prefix + [torn])[0]
        # zero-filled to full length: later writes never reached the disk but the size did
        img = materialize({}, set(), prefix)[0]
        zf = {}
        for rel, data in img.items():
            # the name this file ends up under (follow later renames)
            final = rel
            for op in journal[p:]:
                if op[0] == "RENAME" and op[1] == final:
                    final = op[2]
            full = full_files.get(final)
            zf[rel] = data + b"\0" * max(0, (len(full) if full is not None else len(data)) - len(data))
        if zf != img:
            yield (p, "zero_filled"), zf
        # seek-back patches missing: apply all writes of the prefix except
        # those that land before the end of what was already written
        ext = {}
        nopatch = []
        for op in prefix:
            if op[0] == "WRITE":
                if op[2] < ext.get(op[1], 0):
                    continue
                ext[op[1]] = max(ext.get(op[1], 0), op[2] + len(op[3]))
            nopatch.append(op)
        if len(nopatch) != len(prefix):
            yield (p, "no_seekback"), materialize({}, set(), nopatch)[0]
    # power loss after the store completed: exactly one un-synced write never
    # reached the disk (a hole of zeros inside an otherwise complete entry)
    for w, op in enumerate(journal):
        if op[0] == "WRITE":
            yield (w, "lost_write"), materialize({}, set(), journal[:w] + journal[w + 1:])[0]
    # ... or one 512-byte sector of the finished entry reads back as zeros
    for rel, data in full_files.items():
        for a in range(0, len(data), 512):
            img = dict(full_files)
            img[rel] = data[:a] + b"\0" * (min(len(data), a + 512) - a) + data[a + 512:]
            if img[rel] != data:
                yield (nops + 1 + a // 512, "lost_sector"), img


def execute_enum_journal(job):
    spec = job["spec"]
    out = {"status": "ok", "cases": 0, "kind": "enum_journal"}
    try:
        args, exp, journal, files = _store_entry(spec, job["run_dir"])
        entries = [f for f in files if f.endswith(".npz")]
        if not entries:
            raise HarnessError("the storing request left no entry in the cache directory")
        single = len(entries) == 1
        entry_rel = os.path.join(CACHE_DIR, entries[0])
        out["journal_ops"] = len(journal)
        only = job.get("only")
        n = 0
        for (p, variant), img in _journal_variants(journal, entry_rel):
            for placed in ("as_left", "at_entry_path"):
                n += 1
                if only is not None and [p, variant, placed] != only:
                    continue
                if job.get("lo") is not None and not (job["lo"] <= p < job["hi"]):
                    continue
                img2 = dict(img)
                if placed == "at_entry_path" and not single:
                    continue
                if placed == "at_entry_path":
                    # the same torn bytes under the entry's final name: what an
                    # interrupted in-place writer (an older BLDFM, a copied
                    # cache directory) leaves behind
                    others = [r for r in img2 if r != entry_rel and r.startswith(CACHE_DIR + "/")]
                    if not others:
                        continue
                    img2 = {entry_rel: img2[others[0]]}
                _clear_files()
                for rel, data in img2.items():
                    if rel.startswith(CACHE_DIR + "/"):
                        os.makedirs(os.path.dirname(rel), exist_ok=True)
                        with open(rel, "wb") as fh:
                            fh.write(data)
                out["case"] = {"kind": "enum_journal", "spec": spec, "only": [p, variant, placed]}
                _check_after_damage(args, exp, f"crash image at journal op {p}/{len(journal)} variant {variant} ({placed})", recheck=True)
                out["cases"] += 1
        out.pop("case", None)
    except Violation as v:
        out["status"] = "violation"
        out["violation"] = v.as_dict()
    except HarnessError as e:
        out["status"] = "harness_error"
        out["error"] = str(e)
    return out


_XPROC = r"""
import json, logging, os, sys
sys.path.insert(0, sys.argv[1]); sys.path.insert(0, sys.argv[2])
logging.disable(logging.CRITICAL)
import numpy as np
from engines import specs as S
from sim.core import arr_digest
import bldfm.solver as bs
from bldfm.cache import GreensFunctionCache
spec = json.loads(sys.argv[3])
n = [0]
orig = bs.ivp_solver
def counting(*a, **k):
    n[0] += 1
    return orig(*a, **k)
bs.ivp_solver = counting
o_fft2, o_ifft2 = bs.fft2, bs.ifft2
def fft2(*a, **k):
    n[0] += 1
    return o_fft2(*a, **k)
def ifft2(*a, **k):
    n[0] += 1
    return o_ifft2(*a, **k)
bs.fft2, bs.ifft2 = fft2, ifft2
out = []
for _ in range(2):
    b = n[0]
    try:
        grid, conc, flx = bs.steady_state_transport_solver(**S.build_args(spec), cache=GreensFunctionCache(".bldfm_cache"))
        out.append({"solved": n[0] - b, "digest": [arr_digest(g) for g in grid] + [arr_digest(conc), arr_digest(flx)]})
    except Exception as e:
        out.append({"exc": type(e).__name__ + ": " + str(e)[:160]})
print("XPROC " + json.dumps(out), flush=True)
os._exit(0)
"""


def execute_xproc(job):
    """'In this or an earlier process': the directory one interpreter filled is
    used by a genuinely separate interpreter (own imports, own string-hash
    salt, own numba state).  The second interpreter must be served from the
    cache, with the right values."""
    import json
    import subprocess
    import sys

    from bldfm.cache import GreensFunctionCache
    from bldfm.solver import steady_state_transport_solver as solve

    spec = job["spec"]
    out = {"status": "ok", "cases": 0, "kind": "xproc"}
    try:
        os.chdir(job["run_dir"])
        args = S.build_args(spec)
        exp = solve(**args, cache=None)
        try:
            solve(**args, cache=GreensFunctionCache(CACHE_DIR))
        except Exception as e:
            raise _plain_store_failed(e, "a plain storing request")
        want = [arr_digest(g) for g in exp[0]] + [arr_digest(exp[1]), arr_digest(exp[2])]
        for hs in job["hashseeds"]:
            env = dict(os.environ, PYTHONHASHSEED=str(hs), PYTHONDONTWRITEBYTECODE="1", NUMBA_CACHE_DIR=job["numba_dir"])
            p = subprocess.run([sys.executable, "-c", _XPROC, job["verif"], job["repo_src"], json.dumps(spec)], env=env, capture_output=True, text=True, timeout=600, cwd=job["run_dir"])
            line = [l for l in p.stdout.splitlines() if l.startswith("XPROC ")]
            if not line:
                raise HarnessError("separate interpreter gave no result: " + (p.stdout + p.stderr)[-1500:])
            res = json.loads(line[0][6:])
            out["case"] = {"kind": "xproc", "spec": spec, "hashseeds": [hs]}
            for k2, r in enumerate(res):
                if "exc" in r:
                    raise Violation("never-fatal", "exception", f"separate interpreter (PYTHONHASHSEED={hs}) request {k2} raised {r['exc']}", {"exc": r["exc"].split(":")[0]})
                if r["digest"] != want:
                    raise Violation("transparent", "wrong-result", f"separate interpreter (PYTHONHASHSEED={hs}) request {k2} returned other values than the cache-less solve", {"cause": ["process"]})
                if r["solved"]:
                    raise Violation("effective", "re-solved", f"separate interpreter (PYTHONHASHSEED={hs}) request {k2}: an identical request stored by an earlier process was solved again",
                                    {"halo": "xproc"})
            out["cases"] += 1
        out.pop("case", None)
    except Violation as v:
        out["status"] = "violation"
        out["violation"] = v.as_dict()
    except HarnessError as e:
        out["status"] = "harness_error"
        out["error"] = str(e)
    finally:
        import shutil

        shutil.rmtree(job.get("numba_dir", "/nonexistent"), ignore_errors=True)
    return out


def execute_many(job):
    """A directory with many entries: the first and the last request must still
    be served from it (a size cap or an index that degrades would show here)."""
    from bldfm.cache import GreensFunctionCache
    from bldfm.solver import steady_state_transport_solver as solve

    spec = dict(job["spec"])
    out = {"status": "ok", "cases": 0, "kind": "many"}
    try:
        os.chdir(job["run_dir"])
        c = GreensFunctionCache(CACHE_DIR)
        n = job["n"]
        for k in range(n):
            s2 = dict(spec, meas_pt=[spec["meas_pt"][0] + 0.5 * k, spec["meas_pt"][1]])
            try:
                solve(**S.build_args(s2), cache=c)
            except Exception as e:
                raise _plain_store_failed(e, f"storing request {k} of {n}")
        for k in (0, n // 2, n - 1):
            s2 = dict(spec, meas_pt=[spec["meas_pt"][0] + 0.5 * k, spec["meas_pt"][1]])
            args = S.build_args(s2)
            exp = solve(**args, cache=None)
            b = _counts["ivp"] + _counts["fft"]
            res = solve(**args, cache=GreensFunctionCache(CACHE_DIR))
            if _counts["ivp"] + _counts["fft"] != b:
                raise Violation("effective", "re-solved", f"request {k} of {n} stored ones was solved again although nothing happened to its entry", {"halo": "many-entries"})
            cmpres = compare_result(res, exp, True)
            if cmpres not in (None, "inexact"):
                raise Violation("transparent", "wrong-result", f"request {k} of {n}: field {cmpres[0]}: {cmpres[1]}", {"cause": ["many-entries"]})
            out["cases"] += 1
        out["entries"] = len(_list_files())
    except Violation as v:
        out["status"] = "violation"
        out["violation"] = v.as_dict()
    except HarnessError as e:
        out["status"] = "harness_error"
        out["error"] = str(e)
    return out


def execute_enum_kill(job):
    """Ground truth for the 'kill' crash model: a real child process is really
    SIGKILLed at the k-th file operation of a storing request (its user-space
    buffers are lost for real, what the kernel already has persists); the next
    process works on whatever directory that leaves behind."""
    import signal

    from bldfm.cache import GreensFunctionCache
    from bldfm.solver import steady_state_transport_solver as solve

    spec = job["spec"]
    out = {"status": "ok", "cases": 0, "kind": "enum_kill", "killed": 0}
    try:
        os.chdir(job["run_dir"])
        args = S.build_args(spec)
        exp = solve(**args, cache=None)
        for k in range(job["lo"], job["hi"]):
            if os.path.isdir(CACHE_DIR):
                _clear_files()
            pid = os.fork()
            if pid == 0:
                try:
                    disk = SimDisk(job["run_dir"])

                    def hook(d, idx, kind, rel, info, k=k):
                        if idx == k:
                            os.kill(os.getpid(), signal.SIGKILL)

                    disk.hook = hook
                    disk.install()
                    solve(**args, cache=GreensFunctionCache(CACHE_DIR))
                finally:
                    os._exit(0)
            _, st = os.waitpid(pid, 0)
            killed = os.WIFSIGNALED(st)
            out["case"] = {"kind": "enum_kill", "spec": spec, "lo": k, "hi": k + 1}
            _check_after_damage(args, exp, f"process SIGKILLed at file operation {k} of a storing request", recheck=True)
            out["cases"] += 1
            out["killed"] += 1 if killed else 0
            if not killed:
                break  # k is beyond the last file operation of the request
        out.pop("case", None)
    except Violation as v:
        out["status"] = "violation"
        out["violation"] = v.as_dict()
    except HarnessError as e:
        out["status"] = "harness_error"
        out["error"] = str(e)
    return out


# ----------------------------------------------------------------------------
# shrinking support


def violation_class(v):
    if v is None:
        return None
    cause = v.get("cause")
    return (v.get("clause"), v.get("kind"), canon(cause) if cause else v.get("exc") or v.get("halo") or "")


def simplify(rec):
    """Candidate simplifications of a record (besides dropping ops)."""
    base = rec["specs"][0]
    for k, op in enumerate(rec["ops"]):
        if op.get("fault"):
            c = copy.deepcopy(rec)
            del c["ops"][k]["fault"]
            yield c
            f = op["fault"]
            if f["kind"] == "crash":
                for key, val in (("model", "kill"), ("lose_suffix", 0), ("rename_mode", "ok")):
                    if f.get(key) != val:
                        c = copy.deepcopy(rec)
                        c["ops"][k]["fault"][key] = val
                        yield c
            if f.get("at", 0) > 0:
                for at in (0, f["at"] // 2, f["at"] - 1):
                    c = copy.deepcopy(rec)
                    c["ops"][k]["fault"]["at"] = at
                    yield c
    # move specs toward the base spec, one field at a time
    for i, s in enumerate(rec["specs"]):
        if i == 0:
            continue
        for key in s:
            if s[key] != base.get(key):
                c = copy.deepcopy(rec)
                if key in base:
                    c["specs"][i][key] = copy.deepcopy(base[key])
                else:
                    del c["specs"][i][key]
                yield c
    if rec.get("reuse_arrays"):
        c = copy.deepcopy(rec)
        c["reuse_arrays"] = False
        yield c
    # simpler base: smaller grid
    for key, val in (("ny", 8), ("nx", 8), ("nz", 4), ("prof", "const"), ("precision", "double"), ("analytic", False)):
        if base.get(key) != val and key not in ("nz",):
            c = copy.deepcopy(rec)
            for s in c["specs"]:
                if s[key] == base[key]:
                    s[key] = val
            yield c


# ----------------------------------------------------------------------------
# plan and evidence


def plan(tier, master_seed, runs=None):
    from sim.core import run_seed

    n = runs if runs is not None else (2000 if tier == "quick" else 150000)
    jobs = []
    for i in range(n):
        seed = run_seed(master_seed, PROP, i)
        faults = (i % 10) >= 3  # 30 % fault-free histories, counted separately
        jobs.append({"kind": "run", "record": generate(seed, tier, faults=faults)})
    # enumerated sub-space
    E = 2 if tier == "quick" else 8
    if runs is not None and runs < 200:
        E = 1
    gen = stream(run_seed(master_seed, PROP, "enum"), "gen")
    enum_jobs = []
    for e in range(E):
        spec = S.base_spec(gen)
        while spec["ny"] * spec["nx"] > 16 * 16 or spec["nz"] > 6:
            spec = S.base_spec(gen)  # enumeration is per byte of the entry: keep the entry small (< 40 kB)
        spec["footprint"] = True
        spec["analytic"] = False  # (analytic + several levels is not a valid request)
        if e == 0:
            spec["halo"] = None  # the default configuration is always one of the entries
        step = 640
        for lo in range(0, 40000, step):
            enum_jobs.append({"kind": "enum_trunc", "spec": spec, "lo": lo, "hi": lo + step})
        for lo in range(0, 200, 10):
            enum_jobs.append({"kind": "enum_journal", "spec": spec, "lo": lo, "hi": lo + 10})
        for lo in range(0, 100, 10):
            enum_jobs.append({"kind": "enum_kill", "spec": spec, "lo": lo, "hi": lo + 10})
        if e == 0:
            enum_jobs.append({"kind": "many", "spec": dict(spec, levels=spec["nz"] - 1), "n": 700 if tier == "quick" else 3000, "timeout": 900})
        if e < 2:
            enum_jobs.append({"kind": "xproc", "spec": spec, "hashseeds": [1 + e, 4242 + e], "timeout": 900})
    # enumeration first: it is the exhaustive part
    return {"jobs": enum_jobs + jobs, "determinism_slice": 12, "shrink_budget_s": 90}


def evidence(plan_, executed, tier, master_seed):
    runs = [(j, r) for j, r in executed if j.get("kind") == "run"]
    enum_t = [(j, r) for j, r in executed if j.get("kind") == "enum_trunc"]
    enum_j = [(j, r) for j, r in executed if j.get("kind") == "enum_journal"]
    enum_k = [(j, r) for j, r in executed if j.get("kind") == "enum_kill"]
    kill_cases = sum(r.get("killed", 0) for _, r in enum_k)
    xproc_cases = sum(r.get("cases", 0) for j, r in executed if j.get("kind") == "xproc")
    probes, fired, states, pairs, hooks = {}, {}, set(), set(), {}
    ops = 0
    digests = set()
    ff = fi = 0
    nontrivial = set()
    for j, r in runs:
        ops += r.get("ops_done", 0)
        for k, v in r.get("probes", {}).items():
            probes[k] = probes.get(k, 0) + v
        for k, v in r.get("fired", {}).items():
            fired[k] = fired.get(k, 0) + v
        for k, v in r.get("hooks", {}).items():
            hooks[k] = hooks.get(k, 0) + v
        states.update(r.get("states", []))
        pairs.update(r.get("pairs", []))
        if j["record"].get("faults"):
            fi += 1
        else:
            ff += 1
        if r.get("digest"):
            digests.add(r["digest"])
            pr = r.get("probes", {})
            if pr.get("hit") or r.get("fired"):
                nontrivial.add(r["digest"])
    trunc_cases = sum(r.get("cases", 0) for _, r in enum_t)
    journal_cases = sum(r.get("cases", 0) for _, r in enum_j)
    entry_lens = sorted({(canon(j["spec"]), r.get("entry_len")) for j, r in enum_t if r.get("entry_len")})
    sample_runs = []
    for j, r in runs[:3]:
        sample_runs.append({"seed": j["record"]["seed"], "ops": j["record"]["ops"][:12], "n_specs": len(j["record"]["specs"]), "events": r.get("events", [])[:12]})
    missing_pairs = [k for k in S.NEIGHBOUR_KINDS if k not in pairs]
    cov = {
        "evaluations": len(runs) + trunc_cases + journal_cases + kill_cases,
        "distinct_nontrivial": len(nontrivial) + trunc_cases + journal_cases + kill_cases,
        "rule": "histories: seeded operation/fault sequences (requests that repeat / neighbour in exactly one solver argument / fresh; restart; clear; crash or I/O error "
                "inside a storing request; damage of a stored entry; interface series) against the cache-less reference model; a history is non-trivial if it had at least one "
                "cache hit or at least one fault that actually fired, and distinct by its event-log digest. Enumerated cases: every truncation length of E stored entries and "
                "every journal boundary x {prefix, torn, zero-filled, seek-back patches missing} x {as left by this tree's writer, placed at the entry path}, every single lost write, every lost 512-byte sector, "
                "and a real SIGKILL of a real child process at every file operation of a storing request; each is distinct by construction.",
        "samples": sample_runs,
        "histories": len(runs),
        "histories_fault_free": ff,
        "histories_fault_injecting": fi,
        "operations": ops,
        "distinct_event_digests": len(digests),
        "distinct_abstract_state_triples": len(states),
        "neighbour_kinds_exercised_against_stored_parent": sorted(pairs),
        "neighbour_kinds_not_exercised": missing_pairs,
        "faults_fired": fired,
        "probes": probes,
        "file_api_operations_interposed": hooks,
        "enumerated": {
            "exhaustive": all((l or 0) <= 40000 for _, l in entry_lens) and bool(entry_lens),
            "entries": len(entry_lens),
            "entry_lengths": [l for _, l in entry_lens],
            "truncation_cases": trunc_cases,
            "journal_boundary_cases": journal_cases,
            "real_sigkill_at_every_file_operation_cases": kill_cases,
            "separate_interpreter_reuse_cases (other PYTHONHASHSEED)": xproc_cases,
        },
        "simulated_time": "no timers on this path: simulated time is counted in operations (see 'operations'); the plan-cache thread is parked on the virtual clock and never ticks",
        "components": {
            "bldfm (solver, cache, interface, config_parser, pbl_model, utils)": "real, from the repository's src",
            "numpy/zipfile/numba kernels/FFTW": "real",
            "file system under the run directory": "real FS as volatile view + journal; crash images synthesised",
            "time seen by pyfftw's plan cache": "stub (SimClock, never ticks here)",
        },
    }
    cov["solver_signature_params_without_neighbour_generator"] = [q for q in S.signature_params() if q not in S.SOLVER_PARAMS]
    return {"coverage": cov, "assumptions": [
        "journalling is at the Python file-API level (builtins.open/io.open/os.*); a journal-completeness assertion after every operation turns an unmodelled write path into a harness error",
        "reference model = the same solver call with cache=None in the same process (bit identity expected; 1e-12 / 2e-6 relative tolerated and counted)",
        "crash images: kill (journal prefix, torn write, lost user-space buffer suffix) and power (un-synced writes dropped, rename fate) - supersets of what a real interruption leaves",
    ]}
