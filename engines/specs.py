"""Solver request specs: JSON-able descriptions -> real solver arguments.

A spec is a plain dict; build_args(spec) deterministically produces the keyword
arguments of steady_state_transport_solver.  Neighbours differ from a parent
in exactly one solver argument.
"""

import copy
import inspect

import numpy as np

from sim.core import canon

# every parameter of the solver's signature (checked against the real
# signature at lane start; an unknown one is reported in the evidence)
SOLVER_PARAMS = [
    "srf_flx", "z", "profiles", "domain", "levels", "modes", "meas_pt",
    "srf_bg_conc", "footprint", "analytic", "halo", "precision",
]
# finer-grained neighbour kinds (several per solver argument)
NEIGHBOUR_KINDS = [
    "srf_flx.values", "srf_flx.shape", "z", "profiles.u", "profiles.v",
    "profiles.Kx", "profiles.Ky", "profiles.Kz", "domain", "levels.scalar",
    "levels.list", "levels.reorder", "levels.superset", "modes", "meas_pt",
    "srf_bg_conc", "footprint", "analytic", "halo.none", "halo.resolved",
    "halo.other", "halo.zero", "halo.subcell", "precision",
    # value combinations an ambiguous / rounded / subsampled key would confuse
    "levels.digits", "meas_pt.tiny", "domain.tiny", "z.tiny", "profiles.tiny", "profiles.elem", "z.elem", "halo.tiny", "srf_bg_conc.tiny",
    # representations of the same values (results identical; exercises effectiveness)
    "levels.asarray", "repr.np", "repr.int",
    "srf_flx.transpose", "levels.samelen", "repr.strided",
]
KIND_TO_PARAM = {k: k.split(".")[0] for k in NEIGHBOUR_KINDS}
SAME_RESULT_KINDS = {"levels.asarray", "repr.np", "repr.int", "srf_flx.values", "repr.strided"}


def signature_params():
    from bldfm.solver import steady_state_transport_solver

    return [p for p in inspect.signature(steady_state_transport_solver).parameters if p != "cache"]


def base_spec(rng):
    ny = rng.choice([8, 9, 10, 12, 13, 16])
    nx = rng.choice([8, 10, 11, 12, 15, 16])
    nz = rng.choice([4, 5, 6, 4, 5, 6, 13])
    xmax = rng.choice([80.0, 100.0, 120.0])
    ymax = rng.choice([60.0, 90.0, 100.0])
    kind = rng.choice(["const", "aniso", "shear", "most_unstable", "most_stable"])
    spec = {
        "ny": ny, "nx": nx, "flx_seed": rng.randrange(1000),
        "nz": nz, "z0": rng.choice([0.05, 0.1, 0.3]), "zm": rng.choice([3.0, 4.0, 6.0]),
        "z_scale": 1.0,
        "prof": kind, "U": rng.choice([1.5, 2.0, 3.0, -2.0]), "V": rng.choice([-1.0, 0.0, 0.5, 1.0]),
        "K": rng.choice([0.5, 1.0, 1.5]),
        "prof_scale": [1.0, 1.0, 1.0, 1.0, 1.0],
        "domain": [xmax, ymax],
        "levels": rng.choice([nz - 1, nz - 2, 1, [1, nz - 1], [0, 2, nz - 1], list(range(nz))] + ([[1, 12], [1, 12]] if nz == 13 else [])),
        "prof_elem": None, "z_elem": None, "repr": None,
        "modes": rng.choice([[4, 4], [6, 4], [8, 8], [8, 6]]),
        "meas_pt": [rng.choice([0.0, 10.0, 33.0, -15.0, 250.0]), rng.choice([0.0, 5.0, 21.0, -0.0])],
        "bg": rng.choice([0.0, 0.0, 2.5, 0.0, 2.5, 1e12]),
        "footprint": True,
        "analytic": rng.random() < 0.15,
        "halo": rng.choice([None, None, 20.0, 35.0, "resolved"]),
        "precision": rng.choice(["double", "double", "single"]),
    }
    if spec["halo"] == "resolved":
        spec["halo"] = max(xmax, ymax)
    r = rng.random()
    if r < 0.03:
        # an entry of more than 1 MiB (13 levels on a 48x64 grid)
        spec.update(ny=48, nx=64, nz=13, levels=list(range(13)), domain=[128.0, 96.0], halo=16.0, modes=[8, 8], meas_pt=[10.0, 5.0], analytic=False)
    elif r < 0.05:
        # very many output levels (long level lists, long anything derived from them)
        spec.update(ny=8, nx=8, nz=70, levels=list(range(70)), modes=[4, 4], analytic=False, prof=rng.choice(["const", "aniso", "shear"]))
    if rng.random() < 0.15 and spec["nz"] not in (13, 70):
        # a larger, FFT-friendlier padded grid (32..52 points per side): more
        # than one FFTW algorithm is competitive there, so plan-dependent
        # rounding can show
        spec["nx"] = rng.choice([16, 20, 24, 32])
        spec["ny"] = rng.choice([12, 16, 24])
        spec["domain"] = [50.0 * spec["nx"], 50.0 * spec["ny"]]
        spec["halo"] = rng.choice([300.0, 500.0])
        spec["meas_pt"] = [200.0, 150.0]
    if spec["analytic"] and not isinstance(spec["levels"], list):
        pass  # scalar levels are wrapped by the solver before analytic indexing
    return spec


def _profiles(spec, z):
    kind = spec["prof"]
    n = len(z)
    U, V, K = spec["U"], spec["V"], spec["K"]
    if kind == "const":
        u = np.full(n, U)
        v = np.full(n, V)
        Kx = np.full(n, K)
        Ky = np.full(n, K)
        Kz = np.full(n, K)
    elif kind == "aniso":
        u = np.full(n, U)
        v = np.full(n, V)
        Kx = np.full(n, 2.0 * K)
        Ky = np.full(n, 0.5 * K)
        Kz = K * (0.3 + z / z[-1])
    elif kind == "shear":
        u = U * np.log(z / (0.5 * z[0])) / np.log(z[-1] / (0.5 * z[0]))
        v = V * np.sqrt(z / z[-1])
        Kz = 0.4 * 0.3 * z
        Kx = Kz.copy()
        Ky = Kz.copy()
    elif kind in ("most_unstable", "most_stable"):
        from bldfm.pbl_model import vertical_profiles

        mol = -50.0 if kind == "most_unstable" else 80.0
        zz, prof = vertical_profiles(n, float(z[-1]) / 2.0, (U, V if V else 0.3), ustar=0.35, mol=mol)
        # subsample the real MOST grid to exactly n points (any grid is valid input)
        idx = np.linspace(0, len(zz) - 1, n).astype(int)
        prof = [np.asarray(np.broadcast_to(p, zz.shape), dtype=np.float64)[idx].copy() for p in prof]
        return np.asarray(zz, dtype=np.float64)[idx].copy(), prof
    else:
        raise ValueError(kind)
    return z, [u, v, Kx, Ky, Kz]


_POOL = {}


def build_args(spec, reuse=False):
    """reuse=True: hand out the *same array objects* for z, the profiles and
    srf_flx whenever the shapes agree, refilled in place (a preallocating
    caller) - contents are exactly those of a fresh build."""
    args = _build_args(spec)
    if not reuse:
        return args
    def pooled(name, a):
        key = (name, a.shape, a.dtype.str)
        buf = _POOL.get(key)
        if buf is None:
            buf = _POOL[key] = a.copy()
        else:
            buf[...] = a
        return buf
    args["z"] = pooled("z", args["z"])
    args["profiles"] = tuple(pooled(f"p{i}", p) for i, p in enumerate(args["profiles"]))
    args["srf_flx"] = pooled("srf", args["srf_flx"])
    return args


def _build_args(spec):
    rs = np.random.RandomState(spec["flx_seed"])
    srf = rs.rand(spec["ny"], spec["nx"])
    z = np.linspace(spec["z0"], spec["zm"], spec["nz"]) ** 1.0
    z, prof = _profiles(spec, z)
    z = z * spec["z_scale"]
    prof = [np.ascontiguousarray(p * s, dtype=np.float64) for p, s in zip(prof, spec["prof_scale"])]
    if spec.get("prof_elem"):
        pi, ei, f = spec["prof_elem"]
        prof[pi][ei % len(prof[pi])] *= f
    if spec.get("z_elem"):
        ei, f = spec["z_elem"]
        z = z.copy()
        k = 1 + ei % (len(z) - 2)
        z[k] = z[k] + f * (z[k + 1] - z[k])  # stays strictly between its neighbours
    if spec.get("strided"):
        # the same values as strided (non-contiguous) views, e.g. columns of a table
        def strided(p):
            big = np.zeros(2 * len(p), dtype=p.dtype)
            big[::2] = p
            return big[::2]
        prof = [strided(p) for p in prof]
    levels = spec["levels"]
    if isinstance(levels, dict):  # {"array": [...]} -> ndarray levels
        levels = np.array(levels["array"], dtype=np.int64)
    elif isinstance(levels, list):
        levels = list(levels)
    halo = spec["halo"]
    domain = (spec["domain"][0], spec["domain"][1])
    meas_pt = (spec["meas_pt"][0], spec["meas_pt"][1])
    bg = spec["bg"]
    rep = spec.get("repr")
    if rep == "np":
        domain = tuple(np.float64(v) for v in domain)
        meas_pt = np.array(meas_pt, dtype=np.float64)
        bg = np.float64(bg)
        halo = None if halo is None else np.float64(halo)
    elif rep == "int":
        domain = tuple(int(v) if float(v).is_integer() else v for v in domain)
        meas_pt = tuple(int(v) if float(v).is_integer() else v for v in meas_pt)
        halo = halo if halo is None or not float(halo).is_integer() else int(halo)
    return dict(
        srf_flx=srf,
        z=np.ascontiguousarray(z, dtype=np.float64),
        profiles=tuple(prof),
        domain=domain,
        levels=levels,
        modes=(spec["modes"][0], spec["modes"][1]),
        meas_pt=meas_pt,
        srf_bg_conc=bg,
        footprint=spec["footprint"],
        analytic=spec["analytic"],
        halo=halo,
        precision=spec["precision"],
    )


def _levels_list(spec):
    lv = spec["levels"]
    if isinstance(lv, dict):
        return list(lv["array"])
    return list(lv) if isinstance(lv, list) else [lv]


def neighbour(spec, kind, rng):
    """A spec that differs from `spec` in exactly one solver argument, or None
    if this kind does not apply."""
    s = copy.deepcopy(spec)
    nz = spec["nz"]
    if kind == "srf_flx.values":
        s["flx_seed"] = spec["flx_seed"] + 1 + rng.randrange(5)
    elif kind == "srf_flx.shape":
        if rng.random() < 0.5:
            s["ny"] = spec["ny"] + rng.choice([-2, -1, 1, 2])
        else:
            s["nx"] = spec["nx"] + rng.choice([-2, -1, 1, 2])
    elif kind == "z":
        s["z_scale"] = spec["z_scale"] * rng.choice([0.9, 1.1, 1.25])
    elif kind in ("profiles.u", "profiles.v", "profiles.Kx", "profiles.Ky", "profiles.Kz"):
        i = ["u", "v", "Kx", "Ky", "Kz"].index(kind.split(".")[1])
        s["prof_scale"][i] = spec["prof_scale"][i] * rng.choice([0.8, 1.2, 1.5])
        if i == 1 and spec["V"] == 0.0 and spec["prof"] in ("const", "aniso", "shear"):
            s["V"] = 0.7  # scaling a zero profile changes nothing
    elif kind == "domain":
        j = rng.randrange(2)
        s["domain"][j] = spec["domain"][j] * rng.choice([0.8, 1.25])
    elif kind == "levels.scalar":
        cur = _levels_list(spec)
        cand = [k for k in range(nz) if [k] != cur]
        s["levels"] = rng.choice(cand)
    elif kind == "levels.list":
        cur = _levels_list(spec)
        for _ in range(10):
            k = rng.randrange(2, nz + 1)
            lv = sorted(rng.sample(range(nz), k))
            if lv != cur:
                s["levels"] = lv
                break
        else:
            return None
    elif kind == "levels.reorder":
        cur = _levels_list(spec)
        if len(cur) < 2:
            return None
        s["levels"] = list(reversed(cur))
    elif kind == "levels.superset":
        cur = _levels_list(spec)
        rest = [k for k in range(nz) if k not in cur]
        if not rest:
            return None
        s["levels"] = sorted(cur + [rng.choice(rest)])
    elif kind == "modes":
        opts = [[4, 4], [6, 4], [8, 8], [8, 6], [4, 8], [64, 64]]
        opts = [m for m in opts if m != spec["modes"]]
        s["modes"] = rng.choice(opts)
    elif kind == "meas_pt":
        j = rng.randrange(2)
        s["meas_pt"][j] = spec["meas_pt"][j] + rng.choice([-7.0, 4.0, 12.5])
    elif kind == "srf_bg_conc":
        s["bg"] = spec["bg"] + rng.choice([1.0, 5.0, -2.0])
    elif kind == "footprint":
        s["footprint"] = not spec["footprint"]
    elif kind == "analytic":
        s["analytic"] = not spec["analytic"]
    elif kind == "halo.none":
        if spec["halo"] is None:
            return None
        s["halo"] = None
    elif kind == "halo.resolved":
        r = max(spec["domain"])
        if spec["halo"] == r:
            return None
        s["halo"] = r
    elif kind == "halo.other":
        opts = [h for h in (20.0, 35.0, 47.5, 60.0) if h != spec["halo"]]
        s["halo"] = rng.choice(opts)
    elif kind == "halo.subcell":
        # a different halo that pads by the same number of cells: the shift of
        # the Green's function still uses the raw value
        h = spec["halo"] if spec["halo"] is not None else max(spec["domain"])
        dx = spec["domain"][0] / spec["nx"]
        dy = spec["domain"][1] / spec["ny"]
        for f in (0.3, -0.3, 0.15, -0.15, 0.05):
            h2 = round(h + f * min(dx, dy), 6)
            if h2 > 0 and int(h2 / dx) == int(h / dx) and int(h2 / dy) == int(h / dy) and h2 != h:
                s["halo"] = h2
                break
        else:
            return None
    elif kind == "halo.zero":
        if spec["halo"] == 0.0:
            return None
        s["halo"] = 0.0
    elif kind == "precision":
        s["precision"] = "single" if spec["precision"] == "double" else "double"
    elif kind == "levels.digits":
        # same decimal digits, different levels: "1"+"12" == "11"+"2"
        if nz < 13:
            return None
        cur = _levels_list(spec)
        s["levels"] = [11, 2] if cur == [1, 12] else [1, 12]
    elif kind == "meas_pt.tiny":
        j = rng.randrange(2)
        s["meas_pt"][j] = spec["meas_pt"][j] + rng.choice([1e-7, 3e-6])
    elif kind == "domain.tiny":
        j = rng.randrange(2)
        s["domain"][j] = spec["domain"][j] * (1.0 + rng.choice([1e-9, 1e-7]))
    elif kind == "halo.tiny":
        h = spec["halo"] if spec["halo"] is not None else max(spec["domain"])
        s["halo"] = h * (1.0 + 1e-9)
    elif kind == "srf_bg_conc.tiny":
        s["bg"] = spec["bg"] + 1e-7
    elif kind == "z.tiny":
        s["z_scale"] = spec["z_scale"] * (1.0 + rng.choice([1e-9, 1e-7]))
    elif kind == "profiles.tiny":
        i = rng.randrange(5)
        s["prof_scale"][i] = spec["prof_scale"][i] * (1.0 + rng.choice([1e-9, 1e-7]))
    elif kind == "profiles.elem":
        s["prof_elem"] = [rng.choice([0, 2, 3, 4]), rng.randrange(nz), rng.choice([1.3, 0.7])]
    elif kind == "z.elem":
        if nz < 3:
            return None
        s["z_elem"] = [rng.randrange(nz), rng.choice([0.3, 0.6])]
    elif kind == "srf_flx.transpose":
        if spec["nx"] == spec["ny"]:
            return None
        s["nx"], s["ny"] = spec["ny"], spec["nx"]
    elif kind == "levels.samelen":
        cur = _levels_list(spec)
        if not isinstance(spec["levels"], list) or len(cur) >= nz:
            return None
        for _ in range(10):
            lv = sorted(rng.sample(range(nz), len(cur)))
            if lv != sorted(cur):
                s["levels"] = lv
                break
        else:
            return None
    elif kind == "levels.asarray":
        if isinstance(spec["levels"], dict):
            return None
        s["levels"] = {"array": _levels_list(spec)}
    elif kind == "repr.np":
        s["repr"] = None if spec.get("repr") == "np" else "np"
    elif kind == "repr.int":
        s["repr"] = None if spec.get("repr") == "int" else "int"
    elif kind == "repr.strided":
        s["strided"] = not spec.get("strided", False)
    else:
        raise ValueError(kind)
    if canon(s) == canon(spec):
        return None
    return s


def diff_params(a, b):
    """Names of the solver arguments in which two specs differ."""
    out = set()
    m = {
        "ny": "srf_flx.shape", "nx": "srf_flx.shape", "flx_seed": "srf_flx.values",
        "nz": "z", "z0": "z", "zm": "z", "z_scale": "z", "prof": "profiles", "U": "profiles",
        "V": "profiles", "K": "profiles", "prof_scale": "profiles", "domain": "domain",
        "levels": "levels", "modes": "modes", "meas_pt": "meas_pt", "bg": "srf_bg_conc",
        "footprint": "footprint", "analytic": "analytic", "halo": "halo", "precision": "precision",
        "prof_elem": "profiles", "z_elem": "z", "repr": "representation", "strided": "representation",
    }
    for k in set(a) | set(b):
        if a.get(k) != b.get(k):
            out.add(m.get(k, k))
    return sorted(out)
