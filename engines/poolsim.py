"""E2 poolsim - C14: timeseries, multi-tower and parallel drivers equal the
individual single runs, for every strategy, worker count, completion order,
parent thread setting, and with caching on or off.

The real drivers run in a run process forked from a solver-cold zygote, with
SimPool in place of ProcessPoolExecutor and SimDisk's wrappers as worker yield
points.  The oracle is run_bldfm_single computed in a separate, fresh
reference process.
"""

import copy
import logging
import os
import pickle
import shutil
import traceback

import numpy as np

from sim import clock as simclock
from sim import forklock
from sim import pool as simpool
from sim.core import (Chooser, EventLog, HarnessError, Violation, arr_digest,
                      canon, rel_err, seed_tempfile, sha, stream)
from sim.disk import SimDisk
from sim.harness import _recv, _recv_deadline, _send

PROP = "C14"
_ref = {}


# ----------------------------------------------------------------------------
# configuration


def build_config(world, towers=None, nsteps=None):
    """towers: indices into the world's tower list (a sub-configuration keeps
    that order); nsteps: keep only the first nsteps met steps."""
    from bldfm.config_parser import parse_config_dict

    raw = copy.deepcopy(world["config"])
    xy = world.get("tower_xy")
    if towers is not None:
        raw["towers"] = [raw["towers"][i] for i in towers]
        if xy is not None:
            xy = [xy[i] for i in towers]
    if nsteps is not None:
        for k, v in raw["met"].items():
            if isinstance(v, list):
                raw["met"][k] = v[:nsteps]
    cfg = parse_config_dict(raw)
    if xy is not None:
        for t, (x, y) in zip(cfg.towers, xy):
            t.x, t.y = x, y
    return cfg


def surface_flux(world):
    d = world["config"]["domain"]
    rs = np.random.RandomState(world.get("flux_seed", 1))
    return rs.rand(d["ny"], d["nx"])


def gen_world(rng, large=False):
    nt = rng.choice([1, 2, 2, 3, 3])
    ns = rng.choice([1, 2, 3, 4])
    if large:
        # beyond the small range of the quantifier: more towers, longer series
        nt = rng.choice([4, 5, 6])
        ns = rng.choice([5, 6, 8])
    if large and rng.random() < 0.5:
        nt = rng.choice([10, 11, 12])
        ns = rng.choice([1, 2])
    elif large and rng.random() < 0.3:
        nt = rng.choice([1, 2])
        ns = 16
    pool_names = ["zeta", "alpha", "mid", "Tower-10", "Tower-9", "b", "Tower-1", "a"]
    if nt > len(pool_names) or (large and rng.random() < 0.5):
        pool_names = [f"tower_{i}" for i in range(max(nt, 12))]  # tower_10 sorts before tower_2
    names = rng.sample(pool_names, nt)
    heights = [rng.choice([3.0, 4.0, 5.0, 6.5, 7.0, 8.5]) + 0.01 * k for k in range(nt)]
    towers = []
    for k in range(nt):
        towers.append({"name": names[k], "lat": 50.0 + rng.choice([0.0, 1e-4, 2.5e-4]), "lon": 11.0 + rng.choice([0.0, 1.5e-4, 3e-4]), "z_m": heights[k]})
    colocated = nt >= 2 and rng.random() < 0.4
    if colocated:
        towers[1]["lat"], towers[1]["lon"], towers[1]["z_m"] = towers[0]["lat"], towers[0]["lon"], towers[0]["z_m"]
    forcing = rng.choice(["ustar", "ustar", "z0"])
    met = {}

    def series(vals, force_list=False):
        base = [rng.choice(vals) for _ in range(ns)]
        if ns >= 2 and rng.random() < 0.5:
            base[rng.randrange(1, ns)] = base[0]
        if force_list or rng.random() < 0.5:
            return base
        return base[0]

    if forcing == "ustar":
        met["ustar"] = series([0.25, 0.35, 0.5], force_list=(ns > 1 or rng.random() < 0.3))
        met["wind_speed"] = series([2.0, 3.0, 4.5])
    else:
        met["z0"] = rng.choice([0.05, 0.1])
        met["wind_speed"] = series([2.0, 3.0, 4.5], force_list=(ns > 1 or rng.random() < 0.3))
    met["mol"] = series([-60.0, 120.0, 1e9])
    met["wind_dir"] = series([200.0, 270.0, 300.0] if rng.random() < 0.8 else [0.0, 360.0, -30.0, 405.0, 90.0])
    repeated = False
    if ns >= 2 and rng.random() < 0.6:
        # a repeated met condition: the last step equals the first in every field
        for k, v in met.items():
            if isinstance(v, list):
                v[-1] = v[0]
        repeated = True
    if rng.random() < 0.5:
        met["timestamps"] = [f"2024-06-01T{6 + k:02d}:30" for k in range(ns)]
        if ns >= 2 and rng.random() < 0.5:
            # labels need not be unique (e.g. date-only labels for sub-daily steps)
            met["timestamps"] = ["2024-06-01" if k < (ns + 1) // 2 else "2024-06-02" for k in range(ns)]
    nz = rng.choice([4, 5, 6])
    dom = {"nx": rng.choice([8, 10, 11, 12, 16]), "ny": rng.choice([8, 9, 12]), "xmax": rng.choice([80.0, 100.0]), "ymax": rng.choice([60.0, 100.0]),
           "nz": nz, "modes": rng.choice([[4, 4], [8, 8], [6, 4], [64, 64]]), "halo": rng.choice([None, None, 25.0, 40.0, 0.0]), "ref_lat": 50.0, "ref_lon": 11.0}
    lv = rng.choice(["default", "default", "output_levels", "full_output"])
    if lv == "output_levels":
        dom["output_levels"] = sorted(rng.sample(range(0, nz + 1), rng.choice([1, 2, 2, 3])))
    elif lv == "full_output":
        dom["full_output"] = True
    footprint = rng.random() < 0.75
    if not footprint:
        # dispersion mode truncates the source spectrum symmetrically: keep the
        # grid parity compatible with the (even) mode counts - parity is C11's subject
        dom["nx"] += dom["nx"] % 2
        dom["ny"] += dom["ny"] % 2
    solver = {"closure": rng.choice(["MOST", "MOST", "CONSTANT", "MOSTM"] + (["OAAHOC"] if forcing == "ustar" else [])), "footprint": footprint, "precision": rng.choice(["double"] * 4 + ["single"]),
              "surface_flux_shape": rng.choice(["diamond", "circle", "point"])}
    if not footprint and rng.random() < 0.5:
        # an ideal source away from the domain centre
        solver["src_loc"] = [round(rng.choice([0.25, 0.3, 0.7]) * dom["xmax"], 3), round(rng.choice([0.3, 0.6]) * dom["ymax"], 3)]
    if solver["closure"] == "MOSTM":
        # no diffusion along the flow: needs a wind that is not axis aligned
        wd = met["wind_dir"]
        met["wind_dir"] = [w + 17.0 for w in wd] if isinstance(wd, list) else wd + 17.0
    par = {"max_workers": rng.choice([1, 2, 3, 4, 5] + ([7, 8] if large else [])), "use_cache": rng.random() < 0.5}
    if (colocated or repeated) and footprint and rng.random() < 0.6:
        # two tasks that want the same cache entry: make sure the cache is on
        par["use_cache"] = True
    xy = None
    if rng.random() < 0.15:
        # no geographic reference: towers carry explicit local coordinates (all lat/lon equal)
        dom.pop("ref_lat")
        dom.pop("ref_lon")
        xy = [[rng.choice([0.0, 7.5, 12.0, -9.0]), rng.choice([0.0, 5.0, 11.0])] for _ in towers]
        for t in towers:
            t["lat"], t["lon"] = 0.0, 0.0
        if colocated:
            xy[1] = list(xy[0])
    if rng.random() < 0.02:
        # nothing to do: no towers, or a series of zero steps - the drivers
        # return the (empty) collection of the (zero) single runs
        if rng.random() < 0.5:
            towers, nt, xy = [], 0, None
            colocated = False
        else:
            ns = 0
            for k2, v in list(met.items()):
                if k2 == "timestamps":
                    met[k2] = []
                elif k2 == "z0":
                    continue
                else:
                    met[k2] = []
            repeated = False
    world = {"config": {"domain": dom, "towers": towers, "met": met, "solver": solver, "parallel": par}, "tower_xy": xy,
             "flux_seed": rng.randrange(1000), "n_towers": nt, "n_steps": ns, "colocated": colocated, "repeated": repeated}
    return world


def generate(seed, tier="quick"):
    gen = stream(seed, "gen")
    sch = stream(seed, "sched")
    large = stream(seed, "size").random() < (0.2 if tier == "thorough" else 0.04)
    world = gen_world(gen, large)
    ops = []
    nops = gen.choice([1, 1, 2, 2, 3])
    for k in range(nops):
        r = gen.random()
        if r < 0.70 or (k == nops - 1 and not any(o["op"] == "parallel" for o in ops) and gen.random() < 0.6):
            ops.append({"op": "parallel", "strategy": gen.choice(["towers", "time", "both"]),
                        "max_workers": gen.choice([None, 1, 2, 3, 4, 5] + ([6, 8] if large else []))})
        elif r < 0.85:
            ops.append({"op": "multitower", "flux": gen.random() < 0.4})
        elif world["n_towers"] > 0:
            ops.append({"op": "timeseries", "tower": gen.randrange(world["n_towers"]), "flux": gen.random() < 0.4})
        else:
            ops.append({"op": "multitower", "flux": False})
    for o in ops[1:]:
        # later driver calls may use a sub-configuration (other towers / fewer steps)
        if gen.random() < 0.5:
            nt, ns = world["n_towers"], world["n_steps"]
            if nt > 1 and gen.random() < 0.7:
                k = gen.randrange(1, nt + 1)
                o["tw"] = sorted(gen.sample(range(nt), k)) if gen.random() < 0.7 else gen.sample(range(nt), k)
            if ns > 1 and gen.random() < 0.5:
                o["ns"] = gen.randrange(1, ns + 1)
    if len(ops) >= 2 and gen.random() < 0.3:
        # ... or the first call uses the smaller configuration
        ops[0], ops[-1] = ops[-1], ops[0]
    parent = {"threads": gen.choice([1, 1, 4]), "presolve": gen.choice(["none", "same", "other"]),
              "numba_state": gen.choice(["serial_first", "parallel_first"])}
    for o in ops:
        # schedule choice a fake clock alone cannot make: the pool forks while
        # the parent's plan-cache thread is inside its cull (needs a live thread)
        if o["op"] == "parallel" and gen.random() < 0.15:
            o["hold_cull"] = True
    if tier == "thorough" and gen.random() < 0.004:
        parent["numba_state"] = "cold"
    mode = sch.choice(["pct", "pct", "pct", "uniform", "uniform", "uniform", "uniform", "bursty", "bursty", "bursty"])
    nchg = sch.choice([0, 1, 2, 3])
    sched = {"mode": mode, "pct_changes": sorted(sch.randrange(1, 120) for _ in range(nchg)),
             "stalls": [[sch.randrange(0, 80), sch.randrange(0, 8 if large else 5), sch.choice([5, 20, 80])] for _ in range(sch.choice([0, 1, 1, 2, 3]))]}
    # task-level fault (own stream: the rest of the record is what it was without it):
    # a minority of runs lets one or two worker tasks fail, before they ran or with the result lost
    flt = stream(seed, "taskfault")
    if flt.random() < 0.15 and any(o["op"] == "parallel" for o in ops):
        sched["fails"] = sorted({flt.randrange(0, 10): flt.choice(["before", "after"]) for _ in range(flt.choice([1, 1, 2]))}.items())
        sched["fails"] = [list(f) for f in sched["fails"]]
    return {"engine": "poolsim", "property": PROP, "seed": seed, "tier": tier, "world": world, "parent": parent, "ops": ops, "sched": sched}


# ----------------------------------------------------------------------------
# lanes: solver-cold zygote + a reference zygote


def lane_init(ctx):
    import numba

    logging.disable(logging.CRITICAL)
    simpool.install()  # before bldfm is imported
    _ref["clock"] = simclock.install()
    forklock.install()  # instrumented plan-cache locks (fork while the cull lock is held)
    import bldfm  # noqa: F401
    import bldfm.interface as bi

    if bi.ProcessPoolExecutor is not simpool.SimPool and hasattr(bi, "ProcessPoolExecutor"):
        bi.ProcessPoolExecutor = simpool.SimPool
    _ref["numba_states"] = ctx["numba_states"]
    # reference zygote: forked now (solver-cold), warms the serial kernel for
    # itself, then serves each request in a fresh fork of itself
    q_r, q_w = os.pipe()
    a_r, a_w = os.pipe()
    pid = os.fork()
    if pid == 0:
        os.close(q_w)
        os.close(a_r)
        try:
            _ref_zygote(ctx, q_r, a_w)
        finally:
            os._exit(0)
    os.close(q_r)
    os.close(a_w)
    _ref.update(pid=pid, q_w=q_w, a_r=a_r)
    msg = _recv_deadline(a_r, 600, "the reference zygote at start-up")
    if msg != "ready":
        raise RuntimeError("reference zygote failed: " + str(msg))


def _ref_zygote(ctx, q_r, a_w):
    import numba

    try:
        refdir = os.path.join(ctx["lane_dir"], "ref")
        os.makedirs(refdir, exist_ok=True)
        nb = os.path.join(ctx["lane_dir"], "ref-numba")
        shutil.copytree(ctx["numba_states"]["serial_first"], nb)
        numba.config.CACHE_DIR = nb
        from bldfm import config as bcfg
        import bldfm.solver as bs

        bcfg.NUM_THREADS = 1
        n = 4
        one = np.ones(n, dtype=np.complex128)
        zero = np.zeros(n, dtype=np.complex128)
        z = np.linspace(0.1, 2.0, 4)
        prof = tuple(np.ones(4) for _ in range(5))
        L = np.linspace(0.1, 1.0, n)
        for lv in (np.array([1, 3]), [1, 3]):
            bs.ivp_solver((one, zero), prof, z, lv, L, L)
        _send(a_w, "ready")
    except BaseException:
        _send(a_w, traceback.format_exc())
        return
    k = 0
    while True:
        try:
            req = _recv(q_r)
        except EOFError:
            return
        if req is None:
            return
        k += 1
        r, w = os.pipe()
        pid = os.fork()
        if pid == 0:
            try:
                os.close(r)
                d = os.path.join(refdir, f"q{k}")
                os.makedirs(d, exist_ok=True)
                os.chdir(d)
                out = _reference(req)
                _send(w, out)
            except BaseException:
                try:
                    _send(w, {"error": traceback.format_exc()})
                except BaseException:
                    pass
            finally:
                os._exit(0)
        os.close(w)
        try:
            out = _recv(r)
        except EOFError:
            out = {"error": "reference process died"}
        os.close(r)
        os.waitpid(pid, 0)
        shutil.rmtree(os.path.join(refdir, f"q{k}"), ignore_errors=True)
        _send(a_w, out)


def _reference(world):
    """run_bldfm_single for every tower and step, fresh state, one thread, no cache."""
    from bldfm import config as bcfg
    from bldfm.interface import run_bldfm_single

    bcfg.NUM_THREADS = 1
    cfg = build_config(world)
    flux = surface_flux(world)
    out = {"plain": [], "flux": [], "names": [t.name for t in cfg.towers], "n": cfg.met.n_timesteps}

    def fresh(ti, i, with_flux):
        """One single run in its own fork of this (kernel-warm, otherwise
        pristine) process: no single run can influence another one."""
        r, w = os.pipe()
        pid = os.fork()
        if pid == 0:
            try:
                os.close(r)
                c = build_config(world)
                res = run_bldfm_single(c, c.towers[ti], met_index=i, surface_flux=flux if with_flux else None)
                _send(w, res)
            except BaseException:
                try:
                    _send(w, {"__error__": traceback.format_exc()})
                except BaseException:
                    pass
            finally:
                os._exit(0)
        os.close(w)
        try:
            res = _recv(r)
        finally:
            os.close(r)
            os.waitpid(pid, 0)
        if isinstance(res, dict) and "__error__" in res:
            raise RuntimeError(res["__error__"])
        return res

    for ti, t in enumerate(cfg.towers):
        out["plain"].append([fresh(ti, i, False) for i in range(cfg.met.n_timesteps)])
        out["flux"].append([fresh(ti, i, True) for i in range(cfg.met.n_timesteps)])
    return out


def pre_job(job, ctx):
    if job.get("kind", "run") != "run":
        return job
    _send(_ref["q_w"], job["record"]["world"])
    ref = _recv_deadline(_ref["a_r"], 900, "the reference zygote")
    return dict(job, ref=ref)


# ----------------------------------------------------------------------------
# oracle


def compare_single(got, exp, where):
    if not isinstance(got, dict):
        raise Violation("equal-single", "wrong-result", f"{where}: result is {type(got).__name__}, not a dict", {"field": "type"})
    if set(got) != set(exp):
        raise Violation("equal-single", "wrong-result", f"{where}: keys {sorted(got)} != {sorted(exp)}", {"field": "keys"})
    for k in ("tower_name", "tower_xy", "timestamp"):
        if got[k] != exp[k] or type(got[k]) is not type(exp[k]):
            raise Violation("equal-single", "wrong-result", f"{where}: {k} {got[k]!r} != {exp[k]!r}", {"field": k})
    if got["params"] != exp["params"]:
        raise Violation("equal-single", "wrong-result", f"{where}: params {got['params']!r} != {exp['params']!r}", {"field": "params"})
    bit = True
    try:
        ggrid = list(got["grid"])
    except Exception:
        raise Violation("equal-single", "wrong-result", f"{where}: grid malformed", {"field": "grid"})
    if len(ggrid) != 3:
        raise Violation("equal-single", "wrong-result", f"{where}: grid has {len(ggrid)} arrays", {"field": "grid"})
    for name, a, b in [("X", ggrid[0], exp["grid"][0]), ("Y", ggrid[1], exp["grid"][1]), ("Z", ggrid[2], exp["grid"][2]),
                       ("conc", got["conc"], exp["conc"]), ("flx", got["flx"], exp["flx"])]:
        a = np.asarray(a)
        b = np.asarray(b)
        if a.dtype != b.dtype:
            raise Violation("equal-single", "wrong-result", f"{where}: {name} dtype {a.dtype} != {b.dtype}", {"field": name})
        if a.shape != b.shape:
            raise Violation("equal-single", "wrong-result", f"{where}: {name} shape {a.shape} != {b.shape}", {"field": name})
        if not np.array_equal(a, b, equal_nan=True):
            bit = False
            tol = 1e-12 if a.dtype == np.float64 else 2e-5
            e = rel_err(a, b)
            if e > tol:
                raise Violation("equal-single", "wrong-result", f"{where}: {name} differs, rel {e:.3e}", {"field": name})
    return bit


def _structure_digest(out):
    def one(r):
        try:
            return [r.get("tower_name"), repr(r.get("timestamp")), arr_digest(r["conc"]), arr_digest(r["flx"]), [arr_digest(g) for g in r["grid"]], repr(sorted(r.get("params", {}).items(), key=str))]
        except Exception:
            return repr(type(r))
    if isinstance(out, dict):
        return sha([[k, [one(r) for r in v] if isinstance(v, list) else repr(type(v))] for k, v in out.items()])
    if isinstance(out, list):
        return sha([one(r) for r in out])
    return sha(repr(type(out)))


class Run:
    def __init__(self, job):
        self.job = job
        self.rec = job["record"]
        self.ref = job["ref"]
        self.run_dir = os.path.realpath(job["run_dir"])
        self.log = EventLog(keep=300)
        self.probes = {}
        self.ops_done = 0
        self.bit_equal = 0
        self.compared = 0

    def probe(self, k, n=1):
        self.probes[k] = self.probes.get(k, 0) + n

    def check_series(self, got, tower_idx, use_flux, where, nsteps=None):
        ref = self.ref["flux" if use_flux else "plain"][tower_idx]
        if nsteps is not None:
            ref = ref[:nsteps]
        if not isinstance(got, list):
            raise Violation("time-order", "wrong-result", f"{where}: series is {type(got).__name__}, not a list", {"field": "type"})
        if len(got) != len(ref):
            raise Violation("time-order", "wrong-result", f"{where}: {len(got)} results for {len(ref)} steps", {"field": "length"})
        for i, (g, e) in enumerate(zip(got, ref)):
            bit = compare_single(g, e, f"{where} step {i}")
            self.compared += 1
            self.bit_equal += 1 if bit else 0

    def check_towers(self, got, use_flux, where, towers=None, nsteps=None):
        idx = list(range(len(self.ref["names"]))) if towers is None else list(towers)
        names = [self.ref["names"][i] for i in idx]
        if not isinstance(got, dict):
            raise Violation("keyed-by-name", "wrong-result", f"{where}: result is {type(got).__name__}, not a dict", {"field": "type"})
        if list(got.keys()) != names:
            kind = "key-order" if sorted(got.keys()) == sorted(names) else "key-set"
            raise Violation("keyed-by-name", kind, f"{where}: keys {list(got.keys())} != configuration order {names}", {"field": "keys"})
        for ti, name in zip(idx, names):
            self.check_series(got[name], ti, use_flux, f"{where} tower {name!r}", nsteps)

    def run(self):
        import numba
        from bldfm import config as bcfg
        import bldfm.interface as bi

        rec = self.rec
        os.chdir(self.run_dir)
        state = rec["parent"]["numba_state"]
        nb = self.run_dir + "-numba"
        if state == "cold":
            os.makedirs(nb, exist_ok=True)
        else:
            shutil.copytree(_ref["numba_states"][state], nb)
        numba.config.CACHE_DIR = nb
        seed_tempfile(rec["seed"])
        disk = SimDisk(self.run_dir)
        disk.install()
        self.disk = disk
        sc = rec["sched"]
        chooser = Chooser(rng=stream(rec["seed"], "sched"), recorded=sc.get("choices"))
        sched = simpool.Scheduler(chooser, self.log, mode=sc["mode"], rng=stream(rec["seed"], "prio"), pct_changes=sc.get("pct_changes", ()),
                                  stalls=[tuple(s) for s in sc.get("stalls", [])], disk=disk, fails=[tuple(f) for f in sc.get("fails", [])])
        simpool.set_scheduler(sched)
        self.sched = sched
        cfg = build_config(rec["world"])
        flux = surface_flux(rec["world"])
        # parent history
        p = rec["parent"]
        bcfg.NUM_THREADS = p["threads"]
        try:
            if p["presolve"] == "same" and cfg.towers and cfg.met.n_timesteps > 0:
                bi.run_bldfm_single(cfg, cfg.towers[0], met_index=0)
            elif p["presolve"] in ("other", "same"):
                from bldfm.solver import steady_state_transport_solver as solve

                z = np.linspace(0.1, 4.0, 5)
                prof = (np.full(5, 2.0), np.full(5, 0.5), np.full(5, 1.0), np.full(5, 1.0), np.linspace(0.2, 1.0, 5))
                solve(np.ones((6, 8)), z, prof, (80.0, 60.0), 2, modes=(4, 4), footprint=True, halo=20.0, precision="double")
        except Exception as e:
            raise HarnessError(f"parent pre-solve failed: {type(e).__name__}: {e}")
        self.log.add("parent", p["threads"], p["presolve"], state)
        held = []
        cfgs = {}
        for k, op in enumerate(rec["ops"]):
            where = f"op {k} {op['op']}"
            tw, ns = op.get("tw"), op.get("ns")
            ckey = canon([tw, ns])
            if ckey not in cfgs:
                cfgs[ckey] = cfg if (tw is None and ns is None) else build_config(rec["world"], tw, ns)
            ocfg = cfgs[ckey]
            if tw is not None or ns is not None:
                where += f"(sub-config towers={tw} steps={ns})"
                self.probe("sub_config_op")
            fired_before = len(sched.failed)
            held_cull = False
            if op.get("hold_cull") and op["op"] == "parallel":
                held_cull = forklock.hold_next_cull(_ref["clock"])
                self.probe("fork_while_cull_lock_held" if held_cull else "hold_cull_no_thread")
                self.log.add("hold-cull", k, held_cull)
            try:
                if op["op"] == "parallel":
                    where += f"[{op['strategy']},w={op['max_workers']}]"
                    try:
                        out = bi.run_bldfm_parallel(ocfg, max_workers=op["max_workers"], parallel_over=op["strategy"])
                    finally:
                        if held_cull:
                            forklock.release_cull(_ref["clock"])
                elif op["op"] == "multitower":
                    out = bi.run_bldfm_multitower(ocfg, surface_flux=flux if op["flux"] else None)
                else:
                    tix = op["tower"] if tw is None else tw[op["tower"] % len(tw)]
                    out = bi.run_bldfm_timeseries(ocfg, ocfg.towers[op["tower"] if tw is None else op["tower"] % len(tw)], surface_flux=flux if op["flux"] else None)
            except Violation:
                raise
            except HarnessError:
                raise
            except Exception as e:
                if len(sched.failed) > fired_before and _is_injected(e):
                    # narrow relaxation under the task-failure fault: the call may fail with the
                    # injected error (it does on the unchanged tree) - it may never return wrong data
                    self.probe("driver_raised_injected_task_failure")
                    self.log.add("op-raised-injected", k, op["op"], sched.step)
                    self.ops_done += 1
                    continue
                if type(e).__name__ == "ForkedLockHeld":
                    raise Violation("liveness", "inherited-lock", f"{where}: a worker would block forever: {str(e)[:300]}", {"op": k, "exc": "ForkedLockHeld"})
                cause = e.__cause__
                tail = ""
                try:
                    with open(os.path.join(os.path.dirname(self.run_dir), "out.txt"), "rb") as fh:
                        tail = fh.read()[-800:].decode("utf-8", "replace")
                except OSError:
                    pass
                raise Violation("returns", "exception", f"{where} raised {type(e).__name__}: {str(e)[:200]}" + (f" | worker: {str(cause)[-600:]}" if cause else ""),
                                {"op": k, "exc": type(e).__name__, "tb": traceback.format_exc()[-1200:], "stderr": tail})
            if len(sched.failed) > fired_before:
                self.probe("driver_returned_despite_task_failure")
                where += "(after an injected worker-task failure)"
            if op["op"] == "parallel":
                self.check_towers(out, False, where, tw, ns)
            elif op["op"] == "multitower":
                self.check_towers(out, op["flux"], where, tw, ns)
            else:
                self.check_series(out, tix, op["flux"], where, ns)
            # what an earlier call returned must not change behind the caller's back
            for (pk, pout, pdig) in held:
                if _structure_digest(pout) != pdig:
                    raise Violation("equal-single", "earlier-result-changed", f"{where}: the object returned by op {pk} was modified by this later call", {"field": "aliasing"})
            held.append((k, out, _structure_digest(out)))
            self.log.add("op-done", k, op["op"], sched.step)
            self.ops_done += 1
        sc["choices"] = list(chooser.made)


def _is_injected(e):
    seen = 0
    while e is not None and seen < 8:
        if isinstance(e, simpool.InjectedWorkerFault):
            return True
        e = e.__cause__ or e.__context__
        seen += 1
    return False


def execute(job):
    rec = copy.deepcopy(job["record"])
    job = dict(job, record=rec)
    out = {"status": "ok", "seed": rec.get("seed")}
    ref = job.get("ref")
    if not isinstance(ref, dict):
        out["status"] = "harness_error"
        out["error"] = "no reference"
        return out
    if "error" in ref:
        # the single runs themselves fail for this world: there is nothing the
        # drivers could be equal to - the scenario is skipped (and counted; too
        # many skips make the check fail, see health())
        out["skipped"] = ref["error"][-400:]
        out["record"] = rec
        return out
    run = Run(job)
    try:
        run.run()
    except Violation as v:
        out["status"] = "violation"
        out["violation"] = v.as_dict()
        try:
            rec["sched"]["choices"] = list(run.sched.chooser.made)
        except Exception:
            pass
    except HarnessError as e:
        out["status"] = "harness_error"
        out["error"] = str(e)
    finally:
        try:
            shutil.rmtree(run.run_dir + "-numba", ignore_errors=True)
        except Exception:
            pass
    s = getattr(run, "sched", None)
    out["digest"] = run.log.digest()
    out["events"] = run.log.events[:80]
    out["record"] = rec
    out["ops_done"] = run.ops_done
    out["probes"] = run.probes
    out["compared"] = run.compared
    out["bit_equal"] = run.bit_equal
    if s is not None:
        comp = [t.ordinal for t in s.completed]
        out["stats"] = dict(s.stats)
        out["steps"] = s.step
        out["yield_kinds"] = dict(s.yield_kinds)
        out["completion_perm"] = comp
        out["completion_neq_submission"] = comp != sorted(comp)
        out["assign"] = list(s.assign)
        out["defaulted"] = s.chooser.defaulted
    return out


# ----------------------------------------------------------------------------


def violation_class(v):
    if v is None:
        return None
    return (v.get("clause"), v.get("kind"), v.get("exc") or v.get("field") or "")


OPKEY = "ops"


def simplify(rec):
    w = rec["world"]
    cfg = w["config"]
    # default schedule
    if rec["sched"].get("choices"):
        c = copy.deepcopy(rec)
        c["sched"]["choices"] = []
        c["sched"]["mode"] = "uniform"
        c["sched"]["pct_changes"] = []
        yield c
    if rec["sched"].get("stalls"):
        c = copy.deepcopy(rec)
        c["sched"]["stalls"] = []
        yield c
    fl = rec["sched"].get("fails") or []
    if fl:
        c = copy.deepcopy(rec)
        c["sched"]["fails"] = []
        yield c
        if len(fl) > 1:
            for k in range(len(fl)):
                c = copy.deepcopy(rec)
                del c["sched"]["fails"][k]
                yield c
    # truncate recorded choices (default policy afterwards)
    ch = rec["sched"].get("choices") or []
    for cut in (len(ch) // 2, len(ch) * 3 // 4):
        if 0 < cut < len(ch):
            c = copy.deepcopy(rec)
            c["sched"]["choices"] = ch[:cut]
            yield c
    # parent
    for key, val in (("threads", 1), ("presolve", "none"), ("numba_state", "serial_first")):
        if rec["parent"][key] != val:
            c = copy.deepcopy(rec)
            c["parent"][key] = val
            yield c
    # fewer towers
    if len(cfg["towers"]) > 1:
        for k in range(len(cfg["towers"])):
            c = copy.deepcopy(rec)
            del c["world"]["config"]["towers"][k]
            c["world"]["n_towers"] -= 1
            for o in c["ops"]:
                o.pop("tw", None)
                if o["op"] == "timeseries":
                    o["tower"] = min(o["tower"], c["world"]["n_towers"] - 1)
            yield c
    # fewer steps
    met = cfg["met"]
    n = max([len(v) for v in met.values() if isinstance(v, list)] + [1])
    if n > 1:
        c = copy.deepcopy(rec)
        for k, v in c["world"]["config"]["met"].items():
            if isinstance(v, list):
                c["world"]["config"]["met"][k] = v[:-1]
        c["world"]["n_steps"] = n - 1
        yield c
    for k, o in enumerate(rec["ops"]):
        if o.get("hold_cull"):
            c = copy.deepcopy(rec)
            c["ops"][k].pop("hold_cull")
            yield c
    for k, o in enumerate(rec["ops"]):
        if "tw" in o or "ns" in o:
            c = copy.deepcopy(rec)
            c["ops"][k].pop("tw", None)
            c["ops"][k].pop("ns", None)
            yield c
    # workers
    for k, o in enumerate(rec["ops"]):
        if o["op"] == "parallel" and o["max_workers"] not in (1, 2):
            for mw in (1, 2):
                c = copy.deepcopy(rec)
                c["ops"][k]["max_workers"] = mw
                yield c
    for key, val in (("use_cache", False),):
        if cfg["parallel"].get(key) != val:
            c = copy.deepcopy(rec)
            c["world"]["config"]["parallel"][key] = val
            yield c
    for key, val in (("precision", "double"), ("closure", "MOST")):
        if cfg["solver"].get(key) != val:
            c = copy.deepcopy(rec)
            c["world"]["config"]["solver"][key] = val
            yield c
    for key in ("output_levels", "full_output", "halo"):
        if cfg["domain"].get(key):
            c = copy.deepcopy(rec)
            c["world"]["config"]["domain"].pop(key)
            yield c
    if "timestamps" in met:
        c = copy.deepcopy(rec)
        c["world"]["config"]["met"].pop("timestamps")
        yield c


def health(executed):
    runs = [r for _, r in executed]
    sk = [r for r in runs if r.get("skipped")]
    if runs and len(sk) > max(3, 0.1 * len(runs)):
        return f"{len(sk)} of {len(runs)} scenarios were skipped because the single runs themselves raised: {sk[0]['skipped']}"
    return None


def plan(tier, master_seed, runs=None):
    from sim.core import run_seed

    n = runs if runs is not None else (320 if tier == "quick" else 12000)
    jobs = [{"kind": "run", "record": generate(run_seed(master_seed, PROP, i), tier)} for i in range(n)]
    for j in jobs:
        if j["record"]["parent"]["numba_state"] in ("cold", "parallel_only"):
            j["timeout"] = 900  # somebody has to compile a kernel
    # directed runs: a machine whose numba cache holds only the parallel kernel
    # (first ever use was with NUM_THREADS > 1) - the workers have to compile
    nd = 3 if tier == "quick" else 24
    if runs is not None and runs < 100:
        nd = 0
    directed = []
    for k in range(nd):
        rec = generate(run_seed(master_seed, PROP, f"directed{k}"), tier)
        rec["parent"] = {"threads": 4, "presolve": ["same", "other", "same"][k % 3], "numba_state": "parallel_only"}
        rec["ops"] = [{"op": "parallel", "strategy": ["towers", "time", "both"][k % 3], "max_workers": [2, 1, 3][k % 3]}] + rec["ops"][:1]
        directed.append({"kind": "run", "record": rec, "timeout": 600})
    for k in range(0 if (runs is not None and runs < 100) else (3 if tier == "quick" else 24)):
        # directed: the pool forks while the parent's plan-cache thread holds the cull lock
        rec = generate(run_seed(master_seed, PROP, f"holdcull{k}"), tier)
        rec["parent"] = {"threads": 1, "presolve": "other", "numba_state": "serial_first"}
        rec["ops"] = [{"op": "parallel", "strategy": ["both", "towers", "time"][k % 3], "max_workers": [2, 3, 1][k % 3], "hold_cull": True}]
        directed.append({"kind": "run", "record": rec})
    jobs = directed + jobs
    return {"jobs": jobs, "determinism_slice": 6, "shrink_budget_s": 240}


def evidence(plan_, executed, tier, master_seed):
    runs = [(j, r) for j, r in executed if j.get("kind", "run") == "run"]
    stats = {}
    yk = {}
    digests = set()
    shapes = set()
    perms = set()
    assigns = set()
    steps = 0
    compared = bit = 0
    neq = 0
    nontrivial = set()
    parent_states = {}
    strategies = {}
    for j, r in runs:
        rec = j["record"]
        for k, v in (r.get("stats") or {}).items():
            if k.startswith("max_"):
                stats[k] = max(stats.get(k, 0), v)
            else:
                stats[k] = stats.get(k, 0) + v
        for k, v in (r.get("yield_kinds") or {}).items():
            yk[k] = yk.get(k, 0) + v
        steps += r.get("steps", 0)
        compared += r.get("compared", 0)
        bit += r.get("bit_equal", 0)
        if r.get("digest"):
            digests.add(r["digest"])
        w = rec["world"]
        for o in rec["ops"]:
            key = (o["op"], o.get("strategy"), w["n_towers"], w["n_steps"], o.get("max_workers"), w["config"]["parallel"]["use_cache"])
            shapes.add(key)
            strategies[str(o.get("strategy") or o["op"])] = strategies.get(str(o.get("strategy") or o["op"]), 0) + 1
        perms.add((w["n_towers"], w["n_steps"], tuple(r.get("completion_perm") or ())))
        assigns.add(tuple(map(tuple, r.get("assign") or ())))
        if r.get("completion_neq_submission"):
            neq += 1
        pk = f"threads={rec['parent']['threads']},presolve={rec['parent']['presolve']},numba={rec['parent']['numba_state']}"
        parent_states[pk] = parent_states.get(pk, 0) + 1
        if (r.get("stats") or {}).get("tasks", 0) >= 2 and r.get("digest"):
            nontrivial.add(r["digest"])
    samples = []
    for j, r in runs[:3]:
        samples.append({"seed": j["record"]["seed"], "world": {k: j["record"]["world"][k] for k in ("n_towers", "n_steps", "colocated", "repeated")},
                        "parent": j["record"]["parent"], "ops": j["record"]["ops"], "sched_mode": j["record"]["sched"]["mode"],
                        "completion_perm": r.get("completion_perm"), "events": (r.get("events") or [])[:25]})
    cov = {
        "evaluations": len(runs),
        "distinct_nontrivial": len(nontrivial),
        "rule": "one evaluation = one simulated run: a seeded world (towers x steps, forcing, levels, precision, cache on/off), a parent history (thread setting, pre-solve, numba "
                "disk-cache state), 1-3 driver calls and a seeded schedule (PCT or uniform; stalls). Non-trivial = at least two pool tasks completed; distinct by the digest of the "
                "abstract event sequence (dispatch(task->worker), yield(worker, op kind), done, main).",
        "samples": samples,
        "scheduler_steps": steps,
        "simulated_time": "there are no timers on this path: simulated time is counted in scheduler steps (scheduler_steps); stalls are measured in steps",
        "results_compared_with_reference": compared,
        "results_bit_identical_to_reference": bit,
        "distinct_interleavings_by_event_digest": len(digests),
        "distinct_(op,strategy,towers,steps,workers,cache)_tuples": len(shapes),
        "distinct_completion_permutations": len(perms),
        "distinct_task_to_worker_assignments": len(assigns),
        "runs_with_completion_order_neq_submission_order": neq,
        "scenarios_skipped_because_single_runs_raise": sum(1 for _, r in runs if r.get("skipped")),
        "scheduler": stats,
        "worker_yield_points_by_file_operation": yk,
        "parent_states": parent_states,
        "driver_calls": strategies,
        "faults_injected": {"stall (worker not scheduled for n steps)": stats.get("stall_skips", 0), "worker task fails (before it ran / result lost); the driver may raise the injected error, never return wrong data": stats.get("task_failures_injected", 0),
                            "state-losing faults": "none by design: C14 quantifies over schedules and configurations"},
        "components": {
            "bldfm (interface, solver, cache, fft_manager, utils, config_parser, pbl_model)": "real, from the repository's src",
            "os.fork workers, pipes, pickling of tasks and results, Future objects": "real",
            "ProcessPoolExecutor / as_completed / wait": "stub (SimPool: all max_workers forked at first submit, FIFO call queue, results delivered in completion order)",
            "file system under the run directory": "real; every file operation inside a worker is a yield point",
            "scheduling of OpenMP/FFTW native threads": "real, not controlled",
        },
    }
    return {"coverage": cov, "assumptions": [
        "SimPool stands in for CPython 3.12's ProcessPoolExecutor with the fork start method; claims about 'any completion order' are relative to the Executor contract",
        "reference = run_bldfm_single in a fresh process forked from a kernel-warm reference zygote (NUM_THREADS=1, empty CWD, no cache); conc/flx compared within C12's cross-process allowance (1e-12 double, 2e-5 single), everything else exactly",
        "tasks without file operations (cache off) are atomic steps: there is nothing else in them another process could observe",
    ]}
